package main

import (
	"fmt"
	"go/ast"
	"go/token"
	"go/types"
	"strings"
)

func init() {
	registerRule("lookup-table", 60, "every JSONLookup consults extensions and every tag-driven component the encoder emits, falls through on not-found, and answers computed member names", ruleLookupTable)
}

// listedLookupKinds are the object kinds C15 names; each must have a JSONLookup.
var listedLookupKinds = []string{"Swagger", "Schema", "Parameter", "Response", "Responses", "Header", "Items", "PathItem", "Paths", "Operation", "SecurityScheme", "Info", "Tag"}

// notFoundFormats returns the fmt.Errorf format strings jsonpointer (the
// version the module pins) uses where a struct has no such field.
func (c *Ctx) jsonpointerNotFoundFormats() []string {
	var out []string
	dep := c.Pkg.Imports["github.com/go-openapi/jsonpointer"]
	if dep == nil {
		return nil
	}
	for _, f := range dep.Syntax {
		for _, d := range f.Decls {
			fd, ok := d.(*ast.FuncDecl)
			if !ok || fd.Name.Name != "getSingleImpl" || fd.Body == nil {
				continue
			}
			ast.Inspect(fd.Body, func(n ast.Node) bool {
				cc, ok := n.(*ast.CaseClause)
				if !ok {
					return true
				}
				isStructCase := false
				for _, e := range cc.List {
					if se, ok := e.(*ast.SelectorExpr); ok && se.Sel.Name == "Struct" {
						isStructCase = true
					}
				}
				if !isStructCase {
					return true
				}
				ast.Inspect(cc, func(m ast.Node) bool {
					if call, ok := m.(*ast.CallExpr); ok {
						if se, ok := call.Fun.(*ast.SelectorExpr); ok && se.Sel.Name == "Errorf" && len(call.Args) > 0 {
							if tv, ok := dep.TypesInfo.Types[call.Args[0]]; ok && tv.Value != nil {
								out = append(out, strings.Trim(tv.Value.ExactString(), `"`))
							}
						}
					}
					return true
				})
				return false
			})
		}
	}
	return out
}

func ruleLookupTable(c *Ctx) {
	const rule = "lookup-table"
	formats := c.jsonpointerNotFoundFormats()
	if len(formats) == 0 {
		c.undecided(rule, "jsonpointer:not-found-format", token.NoPos, "cannot find the struct-field-not-found error site of the pinned jsonpointer")
	}
	codec := map[string]*codecSets{}
	for _, k := range c.codecKinds() {
		codec[k.Name] = c.codecSetsOf(k)
	}
	for _, name := range listedLookupKinds {
		n := c.namedType(name)
		has := n != nil && declaredMethod(n, "JSONLookup") != nil
		c.ob(rule, name+":has-JSONLookup", token.NoPos, has, "kind listed by C15 has hand-written codecs but no JSONLookup: jsonpointer would fall back to reflection over its Go fields")
	}
	sc := c.Types.Scope()
	for _, tname := range sc.Names() {
		n := c.namedType(tname)
		if n == nil {
			continue
		}
		m := declaredMethod(n, "JSONLookup")
		if m == nil {
			continue
		}
		fd := c.decl(m)
		if fd == nil || fd.Body == nil {
			c.undecided(rule, tname, n.Obj().Pos(), "JSONLookup body not found")
			continue
		}
		c.saw(c.funcName(fd))
		// absence is visible at the first level of what is handed out: the resolver tells an absent member of a
		// typed document by one nil test on the answer, so the address of a member that is itself a pointer, map
		// or slice (never nil, whatever the member holds) would turn a dangling pointer into an empty value
		nth := 0
		ast.Inspect(fd.Body, func(nd ast.Node) bool {
			if _, isLit := nd.(*ast.FuncLit); isLit {
				return false
			}
			ret, ok := nd.(*ast.ReturnStmt)
			if !ok || len(ret.Results) != 2 {
				return true
			}
			u, ok := unparen(ret.Results[0]).(*ast.UnaryExpr)
			if !ok || u.Op != token.AND {
				return true
			}
			nth++
			nilable := false
			if t := c.typeOf(u.X); t != nil {
				switch t.Underlying().(type) {
				case *types.Pointer, *types.Map, *types.Slice, *types.Chan, *types.Signature:
					nilable = true
				}
			}
			c.ob(rule, fmt.Sprintf("%s:absence-at-first-level#%d", tname, nth), ret.Pos(), !nilable,
				fmt.Sprintf("JSONLookup answers &%s, the address of a member that can itself be nil: the answer is never nil, so a pointer to the absent member is taken for a present, empty value", exprString(u.X)))
			return true
		})
		st, ok := n.Underlying().(*types.Struct)
		if !ok {
			continue
		}
		recv, tok := c.recvObj(fd), c.paramObj(fd, 0)
		isTok := func(e ast.Expr) bool {
			id, ok := unparen(e).(*ast.Ident)
			return ok && c.objOf(id) == tok
		}
		// consultations in source order
		type consult struct {
			comp     string
			call     *ast.CallExpr
			lhs      []types.Object
			filtered bool // made through a helper that already lets the not-found case fall through
		}
		var consults []consult
		loopOf := map[*ast.CallExpr]*ast.RangeStmt{}
		dispatch := map[*ast.CallExpr]bool{} // one consultation call serving several parts chosen beforehand
		multi := map[*ast.CallExpr]bool{}    // one call of a package helper that consults several parts in order
		indexed := map[string]bool{}         // recv path (joined) indexed by the token
		atoiIndexed := map[string]bool{}     // indexed by strconv.Atoi(token) result
		atoiVars := map[types.Object]bool{}
		cmpConsts := map[string]bool{}
		// decided on the effect normal form of the method whenever that is available
		sim := c.lookupFactsBySim(rule, tname, fd, formats)
		if sim != nil {
			indexed, atoiIndexed, cmpConsts = sim.indexed, sim.atoiIndexed, sim.cmpConsts
			for comp := range sim.consulted {
				consults = append(consults, consult{comp, nil, nil, true})
			}
		}
		ast.Inspect(fd.Body, func(nd ast.Node) bool {
			if sim != nil {
				return false
			}
			switch x := nd.(type) {
			case *ast.CallExpr:
				// <list of receiver parts>.lookup(token): a package function that consults its sources in order
				if comps, ok := c.multiSourceLookup(x, recv, tok, formats); ok {
					for _, comp := range comps {
						consults = append(consults, consult{comp, x, nil, true})
					}
					multi[x] = true
				}
			case *ast.AssignStmt:
				if len(x.Rhs) == 1 {
					if call, ok := x.Rhs[0].(*ast.CallExpr); ok {
						if c.isPkgFunc(call, "github.com/go-openapi/jsonpointer", "GetForToken") && len(call.Args) == 2 && isTok(call.Args[1]) {
							// for _, block := range []interface{}{recv.A, recv.B} { GetForToken(block, token) ... }
							if id, ok := unparen(call.Args[0]).(*ast.Ident); ok {
								if loop, comps := c.rangeOverReceiverParts(fd, c.objOf(id), recv); loop != nil {
									var lhs []types.Object
									for _, l := range x.Lhs {
										if lid, ok := l.(*ast.Ident); ok {
											lhs = append(lhs, c.objOf(lid))
										}
									}
									for _, comp := range comps {
										consults = append(consults, consult{comp, call, lhs, false})
									}
									loopOf[call] = loop
								}
							}
							if p, ok := c.apath(call.Args[0]); ok && p.Root == recv && len(p.Steps) > 0 {
								var lhs []types.Object
								for _, l := range x.Lhs {
									if id, ok := l.(*ast.Ident); ok {
										lhs = append(lhs, c.objOf(id))
									}
								}
								consults = append(consults, consult{p.Steps[0], call, lhs, false})
							} else if id, ok := unparen(call.Args[0]).(*ast.Ident); ok && loopOf[call] == nil {
								// a local that holds one of several parts of the receiver, chosen by a dispatch on the token
								var comps []string
								all := true
								for _, d := range c.localDefs(fd)[c.objOf(id)] {
									if d == nil {
										continue
									}
									if dp, ok := c.apath(d); ok && dp.Root == recv && len(dp.Steps) > 0 {
										comps = append(comps, dp.Steps[0])
									} else {
										all = false
									}
								}
								if all && len(comps) > 0 {
									var lhs []types.Object
									for _, l := range x.Lhs {
										if lid, ok := l.(*ast.Ident); ok {
											lhs = append(lhs, c.objOf(lid))
										}
									}
									for _, comp := range comps {
										consults = append(consults, consult{comp, call, lhs, false})
									}
									dispatch[call] = true
								}
							}
						} else if okW, filt := c.lookupWrapper(call, formats); okW && len(call.Args) == 2 && isTok(call.Args[1]) {
							if p, ok := c.apath(call.Args[0]); ok && p.Root == recv && len(p.Steps) > 0 {
								var lhs []types.Object
								for _, l := range x.Lhs {
									if id, ok := l.(*ast.Ident); ok {
										lhs = append(lhs, c.objOf(id))
									}
								}
								// normalise to the (result, kind, err) shape used below
								if len(lhs) == 2 {
									lhs = []types.Object{lhs[0], nil, lhs[1]}
								}
								consults = append(consults, consult{p.Steps[0], call, lhs, filt})
							}
						}
						if c.isPkgFunc(call, "strconv", "Atoi") && len(call.Args) == 1 && isTok(call.Args[0]) {
							if id, ok := x.Lhs[0].(*ast.Ident); ok {
								atoiVars[c.objOf(id)] = true
							}
						}
					}
				}
			case *ast.IndexExpr:
				if p, ok := c.apath(x.X); ok && p.Root == recv {
					if isTok(x.Index) {
						indexed[p.Sub()] = true
					} else if id, ok := unparen(x.Index).(*ast.Ident); ok && atoiVars[c.objOf(id)] {
						atoiIndexed[p.Sub()] = true
					}
				}
			case *ast.BinaryExpr:
				if x.Op == token.EQL {
					for _, pr := range [][2]ast.Expr{{x.X, x.Y}, {x.Y, x.X}} {
						if isTok(pr[0]) {
							if s, ok := c.constString(pr[1]); ok {
								cmpConsts[s] = true
							}
						}
					}
				}
			}
			return true
		})
		// map lookups that answer the token must be in comma-ok form, the answer returned only under ok
		nmap := 0
		c.walkWithIfStack(fd.Body, func(nd ast.Node, ifs []*ast.IfStmt) {
			ix, ok := nd.(*ast.IndexExpr)
			if !ok || sim != nil {
				return
			}
			p, ok := c.apath(ix.X)
			if !ok || p.Root != recv {
				return
			}
			if _, isMap := c.typeOf(ix.X).Underlying().(*types.Map); !isMap {
				return
			}
			keyed := isTok(ix.Index)
			if id, ok := unparen(ix.Index).(*ast.Ident); ok && atoiVars[c.objOf(id)] {
				keyed = true
			}
			if !keyed {
				return
			}
			nmap++
			commaOK := false
			ast.Inspect(fd.Body, func(m ast.Node) bool {
				if as, ok := m.(*ast.AssignStmt); ok && len(as.Lhs) == 2 && len(as.Rhs) == 1 && unparen(as.Rhs[0]) == ast.Expr(ix) {
					commaOK = true
				}
				return true
			})
			c.ob(rule, fmt.Sprintf("%s:comma-ok(%s)", tname, p.Sub()), ix.Pos(), commaOK,
				"a map lookup answers the token without the comma-ok test: a member that does not exist yields a zero value with a nil error on the typed document, while its JSON form reports no such member")
		})
		cs := codec[tname]
		// (i)+(ii): per component of the struct
		for i := 0; i < st.NumFields(); i++ {
			f := st.Field(i)
			ft := derefType(f.Type())
			fn, _ := types.Unalias(ft).(*types.Named)
			key := tname + ":" + f.Name()
			emitted := cs == nil || coversComponent(cs.M, f.Name())
			switch {
			case fn != nil && fn.Obj().Name() == "VendorExtensible" && f.Embedded():
				if !emitted {
					continue
				}
				c.ob(rule, key, fd.Pos(), indexed["VendorExtensible.Extensions"],
					"the encoder emits vendor extensions for this kind but JSONLookup never consults Extensions[token]: /x-... resolves on the JSON form and fails on the typed value")
			case fn != nil && fn.Obj().Name() == "Refable":
				// $ref members are excluded by the statement of C15
			case fn != nil && fn.Obj().Name() == "ResponsesProps":
				// computed names, below
			default:
				if _, isSt := ft.Underlying().(*types.Struct); isSt && f.Embedded() {
					if fn != nil && declaredMethod(fn, "UnmarshalJSON") != nil {
						continue
					}
					if !emitted {
						continue
					}
					found := false
					for _, cn := range consults {
						if cn.comp == f.Name() {
							found = true
						}
					}
					why := "members of this component are emitted by the encoder but JSONLookup never consults it with jsonpointer.GetForToken"
					// ... or answers every member of the component by name, each with its own field
					if !found && sim != nil && len(sim.answered) > 0 {
						var lacking []string
						n := 0
						for _, jf := range jsonFields(ft) {
							if jf.Name == "" || jf.Name == "-" || jf.Name == "$ref" {
								continue
							}
							n++
							if sim.answered[jf.Name] != jf.GoName {
								lacking = append(lacking, jf.Name)
							}
						}
						if n > 0 && len(lacking) == 0 {
							found = true
						} else if n > len(lacking) {
							why = fmt.Sprintf("JSONLookup answers the members of this component by name, but not %v (or not from the field of that name): the typed document and its JSON text disagree there", lacking)
						}
					}
					c.ob(rule, key, fd.Pos(), found, why)
				} else if mp, isMap := ft.Underlying().(*types.Map); isMap && emitted {
					if b, ok := mp.Key().Underlying().(*types.Basic); ok && b.Kind() == types.String {
						c.ob(rule, key, fd.Pos(), indexed[f.Name()], "map component is emitted member by member but JSONLookup never indexes it with the token")
					}
				} else if pt, isPtr := f.Type().Underlying().(*types.Pointer); isPtr && !f.Embedded() {
					// union member holding a schema: consulted?
					if isStruct(pt.Elem()) {
						found := false
						for _, cn := range consults {
							if cn.comp == f.Name() {
								found = true
							}
						}
						c.ob(rule, key, fd.Pos(), found, "schema-bearing member of the union is never consulted")
					}
				}
			}
		}
		// (iii) fall-through between consultations, final return
		nested := map[*ast.CallExpr]bool{} // consultation inside a dispatch branch (union types): no fall-through expected
		for call := range dispatch {
			nested[call] = true
		}
		c.walkWithIfStack(fd.Body, func(nd ast.Node, ifs []*ast.IfStmt) {
			if call, ok := nd.(*ast.CallExpr); ok && len(ifs) > 0 {
				for _, i := range ifs {
					if call.Pos() >= i.Body.Pos() && call.End() <= i.Body.End() {
						nested[call] = true
					}
				}
			}
		})
		for k, cn := range consults {
			if sim != nil {
				break
			}
			key := fmt.Sprintf("%s:fallthrough(%s)", tname, cn.comp)
			if k == len(consults)-1 {
				// the last consultation's own results are returned
				ok := false
				if multi[cn.call] {
					// the helper's two results are what the lookup returns
					ast.Inspect(fd.Body, func(nd ast.Node) bool {
						if rs, isR := nd.(*ast.ReturnStmt); isR && len(rs.Results) == 1 && unparen(rs.Results[0]) == ast.Expr(cn.call) {
							ok = true
						}
						return true
					})
				}
				ast.Inspect(fd.Body, func(nd ast.Node) bool {
					rs, isR := nd.(*ast.ReturnStmt)
					if !isR || rs.Pos() < cn.call.Pos() || len(rs.Results) != 2 {
						return true
					}
					r0, ok0 := unparen(rs.Results[0]).(*ast.Ident)
					r1, ok1 := unparen(rs.Results[1]).(*ast.Ident)
					if ok0 && ok1 && len(cn.lhs) == 3 && c.objOf(r0) == cn.lhs[0] && c.objOf(r1) == cn.lhs[2] {
						ok = true
					}
					return true
				})
				c.ob(rule, tname+":final-return", cn.call.Pos(), ok, "result and error of the last consultation must be returned as they are")
				continue
			}
			next := consults[k+1]
			if nested[cn.call] {
				continue
			}
			ok, why := true, ""
			// every return between this consultation and the next must be conditional, and an
			// error return must be guarded by the negated not-found test on the error text
			regionEnd := next.call.Pos()
			if loop := loopOf[cn.call]; loop != nil {
				regionEnd = loop.End()
			}
			ast.Inspect(fd.Body, func(nd ast.Node) bool {
				rs, isR := nd.(*ast.ReturnStmt)
				if !isR || rs.Pos() < cn.call.End() || rs.Pos() > regionEnd {
					return true
				}
				// the conditions in force at the return that were tested after the consultation
				var lits []condLit
				for _, cl := range c.literalsAt(fd, rs) {
					if cl.e.Pos() > cn.call.End() {
						lits = append(lits, cl)
					}
				}
				if len(lits) == 0 {
					ok, why = false, "unconditional return before the next component is consulted: its members are unreachable"
					return true
				}
				// the consultation's own result is handed back under nothing stricter than "it is non-nil"
				if len(rs.Results) > 0 && len(cn.lhs) > 0 && cn.lhs[0] != nil {
					if rid, isId := unparen(rs.Results[0]).(*ast.Ident); isId && c.objOf(rid) == cn.lhs[0] {
						for _, cl := range lits {
							mentions := false
							ast.Inspect(cl.e, func(m ast.Node) bool {
								if id, ok := m.(*ast.Ident); ok && c.objOf(id) == cn.lhs[0] {
									mentions = true
								}
								return true
							})
							if !mentions {
								continue
							}
							isNilCmp := false
							for _, d := range splitDisj(cl) {
								if be, isB := unparen(d.e).(*ast.BinaryExpr); isB && (be.Op == token.NEQ || be.Op == token.EQL) && (isNilIdent(c, be.Y) || isNilIdent(c, be.X)) {
									isNilCmp = true
								}
							}
							if !isNilCmp {
								ok, why = false, "the value found by this consultation is returned only when "+exprString(cl.e)+": a member that is present with a zero value (0, false, \"\") is reported missing although the JSON form has it"
							}
						}
					}
				}
				returnsErr := len(rs.Results) == 2 && !isNilIdent(c, rs.Results[1])
				if returnsErr && cn.filtered {
					return true // the helper already swallowed the not-found case: any error left is a real one
				}
				// "something was found" (the consultation's value is non-nil): whatever accompanies it is not the not-found error
				for _, cl := range lits {
					if be, isB := unparen(cl.e).(*ast.BinaryExpr); isB && (be.Op == token.NEQ && !cl.neg || be.Op == token.EQL && cl.neg) && isNilIdent(c, be.Y) {
						if id, isId := unparen(be.X).(*ast.Ident); isId && len(cn.lhs) > 0 && c.objOf(id) == cn.lhs[0] {
							returnsErr = false
						}
					}
				}
				if returnsErr {
					cst, neg := "", false
					for _, cl := range lits {
						if k, n := c.notFoundTest(cl.e); k != "" {
							cst, neg = k, n != cl.neg
						}
					}
					switch {
					case cst == "":
						ok, why = false, "an error from this consultation is returned without testing for the not-found case, so a member of a later component is reported missing"
					case !neg:
						ok, why = false, "the not-found test is not negated: the not-found error is returned instead of falling through"
					default:
						match := false
						for _, f := range formats {
							if strings.HasPrefix(f, cst) {
								match = true
							}
						}
						if !match {
							ok, why = false, fmt.Sprintf("not-found test looks for %q, but the pinned jsonpointer reports %q", cst, formats)
						}
					}
				}
				return true
			})
			c.ob(rule, key, cn.call.Pos(), ok, why)
		}
		// (iv) computed names
		if tname == "Responses" {
			enc := c.decl(c.method("ResponsesProps", "MarshalJSON"))
			if enc == nil {
				c.undecided(rule, "Responses:computed-names", fd.Pos(), "ResponsesProps.MarshalJSON not found")
			} else {
				c.saw(c.funcName(enc))
				written := map[string]bool{}
				usesItoa := false
				// the encoder and the package helpers it calls
				encBodies := []*ast.FuncDecl{enc}
				if ef := c.method("ResponsesProps", "MarshalJSON"); ef != nil {
					for _, g := range c.staticCallees(ef) {
						if gfd := c.decl(g); gfd != nil && gfd.Body != nil && gfd != enc {
							c.saw(c.funcName(gfd))
							encBodies = append(encBodies, gfd)
						}
					}
				}
				for _, eb := range encBodies {
					ast.Inspect(eb.Body, func(nd ast.Node) bool {
						as, ok := nd.(*ast.AssignStmt)
						if !ok {
							return true
						}
						for _, l := range as.Lhs {
							if ix, ok := l.(*ast.IndexExpr); ok {
								if s, ok := c.constString(ix.Index); ok {
									written[s] = true
								} else if call, ok := ix.Index.(*ast.CallExpr); ok && c.isPkgFunc(call, "strconv", "Itoa") {
									usesItoa = true
								} else if call, ok := ix.Index.(*ast.CallExpr); ok && c.isDecimalNameHelper(call) {
									// a helper that yields strconv.Itoa of its argument, possibly from a table of
									// names built with Itoa for exactly the indices it is consulted for
									usesItoa = true
								}
							}
						}
						return true
					})
				}
				for w := range written {
					c.ob(rule, "Responses:name("+w+")", fd.Pos(), cmpConsts[w], fmt.Sprintf("encoder writes member %q but JSONLookup never answers to that token", w))
				}
				c.ob(rule, "Responses:status-codes", fd.Pos(), usesItoa && atoiIndexed["ResponsesProps.StatusCodeResponses"],
					"encoder writes decimal status codes (strconv.Itoa); JSONLookup must parse the token with strconv.Atoi and index StatusCodeResponses with it")
			}
		}
	}
}

// notFoundTest finds `strings.HasPrefix(err.Error(), K)` in a condition and
// reports K and whether the call sits under a negation.
func (c *Ctx) notFoundTest(cond ast.Expr) (string, bool) {
	cst, neg := "", false
	var rec func(e ast.Expr, negated bool)
	rec = func(e ast.Expr, negated bool) {
		e = unparen(e)
		switch x := e.(type) {
		case *ast.UnaryExpr:
			if x.Op == token.NOT {
				rec(x.X, !negated)
			}
		case *ast.BinaryExpr:
			rec(x.X, negated)
			rec(x.Y, negated)
		case *ast.CallExpr:
			if c.isPkgFunc(x, "strings", "HasPrefix") && len(x.Args) == 2 {
				if s, ok := c.constString(x.Args[1]); ok {
					cst, neg = s, negated
				}
				return
			}
			// a package predicate over the error: its non-constant answers decide
			if g, ok := c.callee(x).(*types.Func); ok && g.Pkg() == c.Types {
				gfd := c.decl(g)
				if gfd == nil || gfd.Body == nil {
					return
				}
				ast.Inspect(gfd.Body, func(n ast.Node) bool {
					rs, ok := n.(*ast.ReturnStmt)
					if !ok || len(rs.Results) != 1 {
						return true
					}
					if tv, ok := c.Info.Types[rs.Results[0]]; ok && tv.Value != nil {
						return true // constant answer (e.g. false for a nil error)
					}
					rec(rs.Results[0], negated)
					return true
				})
			}
		}
	}
	rec(cond, false)
	return cst, neg
}

// walkWithIfStack visits nodes with the stack of enclosing if statements (outermost first).
func (c *Ctx) walkWithIfStack(root ast.Node, visit func(n ast.Node, ifs []*ast.IfStmt)) {
	var stack []*ast.IfStmt
	var rec func(n ast.Node)
	rec = func(n ast.Node) {
		ast.Inspect(n, func(m ast.Node) bool {
			if m == nil {
				return false
			}
			if m != n {
				if ifs, ok := m.(*ast.IfStmt); ok {
					stack = append(stack, ifs)
					if ifs.Init != nil {
						rec(ifs.Init)
					}
					visit(ifs, stack[:len(stack)-1])
					rec(ifs.Body)
					if ifs.Else != nil {
						rec(ifs.Else)
					}
					stack = stack[:len(stack)-1]
					return false
				}
			}
			visit(m, stack)
			return true
		})
	}
	rec(root)
}

// lookupWrapper recognises a package helper (part, token) that consults jsonpointer.GetForToken on its
// parameters; filtered reports whether the helper itself lets the not-found case through as (r, nil).
func (c *Ctx) lookupWrapper(call *ast.CallExpr, formats []string) (isWrapper, filtered bool) {
	g, ok := c.callee(call).(*types.Func)
	if !ok || g.Pkg() != c.Types {
		return false, false
	}
	gfd := c.decl(g)
	if gfd == nil || gfd.Body == nil || gfd.Recv != nil {
		return false, false
	}
	p0, p1 := c.paramObj(gfd, 0), c.paramObj(gfd, 1)
	if p0 == nil || p1 == nil {
		return false, false
	}
	var inner *ast.CallExpr
	ast.Inspect(gfd.Body, func(n ast.Node) bool {
		if cc, ok := n.(*ast.CallExpr); ok && c.isPkgFunc(cc, "github.com/go-openapi/jsonpointer", "GetForToken") && len(cc.Args) == 2 {
			a0, ok0 := unparen(cc.Args[0]).(*ast.Ident)
			a1, ok1 := unparen(cc.Args[1]).(*ast.Ident)
			if ok0 && ok1 && c.objOf(a0) == p0 && c.objOf(a1) == p1 {
				inner = cc
			}
		}
		return true
	})
	if inner == nil {
		return false, false
	}
	c.saw(c.funcName(gfd))
	// filtered: every error return after the consultation is guarded by the negated not-found test
	filtered = true
	nerr := 0
	ast.Inspect(gfd.Body, func(nd ast.Node) bool {
		rs, ok := nd.(*ast.ReturnStmt)
		if !ok || rs.Pos() < inner.End() || len(rs.Results) == 0 {
			return true
		}
		last := rs.Results[len(rs.Results)-1]
		if isNilIdent(c, last) {
			return true
		}
		nerr++
		okGuard := false
		for _, cl := range c.literalsAt(gfd, rs) {
			cst, neg := c.notFoundTest(cl.e)
			if cst != "" && neg != cl.neg {
				for _, f := range formats {
					if strings.HasPrefix(f, cst) {
						okGuard = true
					}
				}
			}
		}
		if !okGuard {
			filtered = false
		}
		return true
	})
	if nerr == 0 {
		filtered = false
	}
	return true, filtered
}

// rangeOverReceiverParts: v is the value variable of `for _, v := range []T{recv.A, recv.B}`; returns the loop and
// the first path step of every listed receiver part.
func (c *Ctx) rangeOverReceiverParts(fd *ast.FuncDecl, v, recv types.Object) (*ast.RangeStmt, []string) {
	var loop *ast.RangeStmt
	var comps []string
	ast.Inspect(fd.Body, func(n ast.Node) bool {
		rs, ok := n.(*ast.RangeStmt)
		if !ok {
			return true
		}
		id, ok := rs.Value.(*ast.Ident)
		if !ok || c.objOf(id) != v {
			return true
		}
		lit, ok := unparen(rs.X).(*ast.CompositeLit)
		if !ok {
			return true
		}
		var cs []string
		for _, el := range lit.Elts {
			p, ok := c.apath(el)
			if !ok || p.Root != recv || len(p.Steps) == 0 {
				return true
			}
			cs = append(cs, p.Steps[0])
		}
		loop, comps = rs, cs
		return true
	})
	return loop, comps
}

// multiSourceLookup: the call hands a literal list of parts of the receiver (as receiver or argument) and the
// token to a package function that consults every element of that list with jsonpointer.GetForToken, letting the
// not-found case of all but the last fall through. Returns the first path step of each listed part.
func (c *Ctx) multiSourceLookup(call *ast.CallExpr, recv, tok types.Object, formats []string) ([]string, bool) {
	g, _ := c.callee(call).(*types.Func)
	if g == nil || g.Pkg() != c.Types {
		return nil, false
	}
	gfd := c.decl(g)
	if gfd == nil || gfd.Body == nil {
		return nil, false
	}
	// the list literal and the token among receiver / arguments
	var list *ast.CompositeLit
	var listObj, tokObj types.Object
	bind := func(e ast.Expr, o types.Object) {
		if o == nil || e == nil {
			return
		}
		if lit, ok := unparen(e).(*ast.CompositeLit); ok {
			switch c.typeOf(lit).Underlying().(type) {
			case *types.Slice, *types.Array:
				list, listObj = lit, o
			}
		}
		if id, ok := unparen(e).(*ast.Ident); ok && c.objOf(id) == tok {
			tokObj = o
		}
	}
	if se, ok := unparen(call.Fun).(*ast.SelectorExpr); ok && gfd.Recv != nil {
		bind(se.X, c.recvObj(gfd))
	}
	for i, a := range call.Args {
		bind(a, c.paramObj(gfd, i))
	}
	if list == nil || tokObj == nil {
		return nil, false
	}
	var comps []string
	for _, el := range list.Elts {
		p, ok := c.apath(el)
		if !ok || p.Root != recv || len(p.Steps) == 0 {
			return nil, false
		}
		comps = append(comps, p.Steps[0])
	}
	// every consultation in the helper is on an element of the list with the token
	fromList := func(e ast.Expr) bool {
		switch x := unparen(e).(type) {
		case *ast.IndexExpr:
			id, ok := unparen(x.X).(*ast.Ident)
			return ok && c.objOf(id) == listObj
		case *ast.Ident:
			okv := false
			ast.Inspect(gfd.Body, func(n ast.Node) bool {
				rs, ok := n.(*ast.RangeStmt)
				if !ok || rs.Value == nil {
					return true
				}
				if v, ok := rs.Value.(*ast.Ident); ok && c.objOf(v) == c.objOf(x) {
					src := unparen(rs.X)
					if sl, ok := src.(*ast.SliceExpr); ok {
						src = unparen(sl.X)
					}
					if id, ok := src.(*ast.Ident); ok && c.objOf(id) == listObj {
						okv = true
					}
				}
				return true
			})
			return okv
		}
		return false
	}
	nconsult, good := 0, true
	ast.Inspect(gfd.Body, func(n ast.Node) bool {
		cc, ok := n.(*ast.CallExpr)
		if !ok || !c.isPkgFunc(cc, "github.com/go-openapi/jsonpointer", "GetForToken") || len(cc.Args) != 2 {
			return true
		}
		nconsult++
		tid, ok := unparen(cc.Args[1]).(*ast.Ident)
		if !ok || c.objOf(tid) != tokObj || !fromList(cc.Args[0]) {
			good = false
		}
		return true
	})
	if nconsult == 0 || !good {
		return nil, false
	}
	// inside a loop of the helper, an error is only returned under the negated not-found test
	ast.Inspect(gfd.Body, func(n ast.Node) bool {
		rs, ok := n.(*ast.RangeStmt)
		if !ok {
			return true
		}
		ast.Inspect(rs.Body, func(m ast.Node) bool {
			ret, ok := m.(*ast.ReturnStmt)
			if !ok || len(ret.Results) == 0 || isNilIdent(c, ret.Results[len(ret.Results)-1]) {
				return true
			}
			filtered := false
			for _, cl := range c.literalsAt(gfd, ret) {
				if cst, neg := c.notFoundTest(cl.e); cst != "" && neg != cl.neg {
					for _, f := range formats {
						if strings.HasPrefix(f, cst) {
							filtered = true
						}
					}
				}
			}
			if !filtered {
				good = false
			}
			return true
		})
		return true
	})
	c.saw(c.funcName(gfd))
	return comps, good
}

// isDecimalNameHelper: the call is to a package function of one int parameter every return of which is
// strconv.Itoa(param), or T[param] where T is a package-level array initialised by a function literal whose only
// loop runs from 0 up to the constant K and stores Itoa(i) at index i, and the return is guarded by
// uint(param) < K' (or 0 <= param && param < K') with K' <= K.
func (c *Ctx) isDecimalNameHelper(call *ast.CallExpr) bool {
	g, ok := c.callee(call).(*types.Func)
	if !ok || g.Pkg() != c.Types || len(call.Args) != 1 {
		return false
	}
	gfd := c.decl(g)
	if gfd == nil || gfd.Body == nil {
		return false
	}
	param := c.paramObj(gfd, 0)
	if param == nil {
		return false
	}
	isParam := func(e ast.Expr) bool {
		id, ok := unparen(e).(*ast.Ident)
		return ok && c.objOf(id) == param
	}
	n, all := 0, true
	ast.Inspect(gfd.Body, func(nd ast.Node) bool {
		if _, isLit := nd.(*ast.FuncLit); isLit {
			return false
		}
		rs, ok := nd.(*ast.ReturnStmt)
		if !ok || len(rs.Results) != 1 {
			return true
		}
		n++
		r := unparen(rs.Results[0])
		if rc, isCall := r.(*ast.CallExpr); isCall && c.isPkgFunc(rc, "strconv", "Itoa") && len(rc.Args) == 1 && isParam(rc.Args[0]) {
			return true
		}
		if ix, isIx := r.(*ast.IndexExpr); isIx && isParam(ix.Index) {
			if tid, isId := unparen(ix.X).(*ast.Ident); isId {
				if tv, isVar := c.objOf(tid).(*types.Var); isVar && tv.Parent() == c.Types.Scope() {
					if k, okT := c.itoaTableBound(tv); okT && c.indexBelow(gfd, rs, ix.Index, k) {
						return true
					}
				}
			}
		}
		all = false
		return true
	})
	return n > 0 && all
}

// itoaTableBound: the package-level array v is initialised by `func() (t [K]string) { for i := 0; i < K; i++ {
// t[i] = strconv.Itoa(i) }; return t }()`: K.
func (c *Ctx) itoaTableBound(v *types.Var) (int, bool) {
	arr, isArr := v.Type().Underlying().(*types.Array)
	if !isArr {
		return 0, false
	}
	for _, f := range c.Files {
		for _, d := range f.Decls {
			gd, ok := d.(*ast.GenDecl)
			if !ok {
				continue
			}
			for _, sp := range gd.Specs {
				vs, ok := sp.(*ast.ValueSpec)
				if !ok {
					continue
				}
				for i, nm := range vs.Names {
					if c.objOf(nm) != types.Object(v) || i >= len(vs.Values) {
						continue
					}
					call, isCall := unparen(vs.Values[i]).(*ast.CallExpr)
					if !isCall || len(call.Args) != 0 {
						return 0, false
					}
					lit, isLit := unparen(call.Fun).(*ast.FuncLit)
					if !isLit {
						return 0, false
					}
					bound, good, loops := 0, false, 0
					ast.Inspect(lit.Body, func(nd ast.Node) bool {
						fs, isFor := nd.(*ast.ForStmt)
						if !isFor {
							return true
						}
						loops++
						init, okI := fs.Init.(*ast.AssignStmt)
						cond, okC := fs.Cond.(*ast.BinaryExpr)
						if !okI || !okC || len(init.Lhs) != 1 || len(init.Rhs) != 1 || cond.Op != token.LSS {
							return true
						}
						iv, isId := init.Lhs[0].(*ast.Ident)
						if !isId {
							return true
						}
						if tv, has := c.Info.Types[init.Rhs[0]]; !has || tv.Value == nil || tv.Value.String() != "0" {
							return true
						}
						kv, has := c.Info.Types[cond.Y]
						if !has || kv.Value == nil {
							return true
						}
						k, isInt := constInt(kv.Value.String())
						if cid, isCid := unparen(cond.X).(*ast.Ident); !isInt || !isCid || c.objOf(cid) != c.objOf(iv) {
							return true
						}
						// the body stores Itoa(i) at [i]
						stores := false
						ast.Inspect(fs.Body, func(m ast.Node) bool {
							as, isAs := m.(*ast.AssignStmt)
							if !isAs || len(as.Lhs) != 1 || len(as.Rhs) != 1 {
								return true
							}
							ix, isIx := unparen(as.Lhs[0]).(*ast.IndexExpr)
							rc, isRc := unparen(as.Rhs[0]).(*ast.CallExpr)
							if !isIx || !isRc || !c.isPkgFunc(rc, "strconv", "Itoa") || len(rc.Args) != 1 {
								return true
							}
							ii, ok1 := unparen(ix.Index).(*ast.Ident)
							ai, ok2 := unparen(rc.Args[0]).(*ast.Ident)
							if ok1 && ok2 && c.objOf(ii) == c.objOf(iv) && c.objOf(ai) == c.objOf(iv) {
								stores = true
							}
							return true
						})
						if stores && int64(k) <= arr.Len() {
							bound, good = k, true
						}
						return true
					})
					if good && loops == 1 {
						return bound, true
					}
					return 0, false
				}
			}
		}
	}
	return 0, false
}

// indexBelow: at node, the integer expression e is known to lie in [0, k): uint(e) < K' or e >= 0 && e < K' with K' <= k.
func (c *Ctx) indexBelow(fd *ast.FuncDecl, node ast.Node, e ast.Expr, k int) bool {
	want := exprString(unparen(e))
	upper, lower := false, false
	for _, cl := range c.literalsAt(fd, node) {
		be, ok := unparen(cl.e).(*ast.BinaryExpr)
		if !ok || cl.neg {
			continue
		}
		kv, has := c.Info.Types[be.Y]
		if !has || kv.Value == nil {
			continue
		}
		bound, isInt := constInt(kv.Value.String())
		if !isInt {
			continue
		}
		x := unparen(be.X)
		if conv, isConv := x.(*ast.CallExpr); isConv && c.isConversion(conv) && len(conv.Args) == 1 {
			if b, isB := c.typeOf(conv).Underlying().(*types.Basic); isB && b.Info()&types.IsUnsigned != 0 && exprString(unparen(conv.Args[0])) == want {
				if be.Op == token.LSS && bound <= k {
					upper, lower = true, true
				}
			}
			continue
		}
		if exprString(x) != want {
			continue
		}
		switch be.Op {
		case token.LSS:
			if bound <= k {
				upper = true
			}
		case token.GEQ:
			if bound >= 0 {
				lower = true
			}
		}
	}
	return upper && lower
}
