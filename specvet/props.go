package main

var propTable = map[string]*Property{}

func registerProperty(p *Property) { propTable[p.ID] = p }

func init() {
	registerProperty(&Property{
		ID:    "C01",
		Rules: []string{"codec-symmetry", "keyword-table", "zero-preserving", "proxy-complete", "ref-key"},
		Explanation: "Decides the table agreements that JSON round-trip losslessness rests on: for every kind with hand-written codecs, every component is both encoded and decoded (codec-symmetry); every member the Swagger 2.0 / draft-4 meta-schemas define for a kind has a byte-identical JSON field or hand-coded holder (keyword-table); numeric keywords are pointer-typed and no omitempty sits on a non-pointer numeric (zero-preserving); anonymous encode proxies carry and populate every member of the component they replace (proxy-complete); writer and reader of $ref/$schema agree on the member name (ref-key).",
		NotCovered: "round-trip equality of values (number formatting, free-form payloads, escaping of member names - see C06), deep nesting and combinations; x- members on externalDocs/xml objects (no holder in the types; informational note only)",
	})
}
