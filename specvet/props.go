package main

var propTable = map[string]*Property{}

func registerProperty(p *Property) { propTable[p.ID] = p }

func init() {
	registerProperty(&Property{
		ID:    "C01",
		Rules: []string{"codec-symmetry", "keyword-table", "zero-preserving", "proxy-complete", "ref-key"},
		Explanation: "Decides the table agreements that JSON round-trip losslessness rests on: for every kind with hand-written codecs, every component is both encoded and decoded (codec-symmetry); every member the Swagger 2.0 / draft-4 meta-schemas define for a kind has a byte-identical JSON field or hand-coded holder (keyword-table); numeric keywords are pointer-typed and no omitempty sits on a non-pointer numeric (zero-preserving); anonymous encode proxies carry and populate every member of the component they replace (proxy-complete); writer and reader of $ref/$schema agree on the member name (ref-key).",
		NotCovered: "round-trip equality of values (number formatting, free-form payloads, escaping of member names - see C06), deep nesting and combinations; x- members on externalDocs/xml objects (no holder in the types; informational note only)",
	})
}

func init() {
	registerProperty(&Property{
		ID:    "C19",
		Rules: []string{"required-emitted", "keyword-table"},
		Explanation: "Decides the per-member half of validity preservation: for every kind and every member its meta-schema definition(s) require, the encoder cannot drop the member from a value decoded from a valid document (decided from the Go type, omitempty, the proxy special-casing in MarshalJSON partially evaluated under the definition's own enum constraints, and the definition's constraint on the member); and no member is renamed into something the closed definitions reject (keyword-table).",
		NotCovered:  "validity of everything else (formats, oneOf selection, uniqueness), validity of expanded schemas' contents; the expansion half (holder either pure $ref or dereferenced with Ref cleared) is decided by ref-clear/containers under C03",
	})
}

func init() {
	registerProperty(&Property{
		ID:    "C20",
		Rules: []string{"copy-map", "clear-exact"},
		Explanation: "The validation accessors are straight-line field copies and guarded clears, so their input/output relation is their shape. copy-map abstracts every SetValidations/Validations/WithValidations body (following delegation) to a map destination-field <- source-field over the field universe taken from the types and requires the identity on the carrier's validation set and no other write. clear-exact checks every Clear*Validations: each (guard, record, clear) triple names one field, reports its JSON keyword, records before clearing, stores the zero value; the cleared set equals the draft-4 family intersected with the carrier; nothing else is written; callbacks are applied by a deferred apply over the same slice; apply calls every callback once per record; Has*Validations reads only fields the matching clear clears.",
		NotCovered:  "aliasing (the set returned by Validations shares pointers with the receiver); HasXValidations being true before a clear for every member of the family (the property only requires it false afterwards)",
	})
}
