package main

var propTable = map[string]*Property{}

func registerProperty(p *Property) { propTable[p.ID] = p }

func init() {
	registerProperty(&Property{
		ID:          "C01",
		Rules:       []string{"codec-symmetry", "keyword-table", "zero-preserving", "proxy-complete", "ref-key", "escape", "name-verbatim", "marshal-receiver", "make-append-json", "dispatch-admits-shortest", "absence-is-nil", "encoder-constants-decodable", "store-outside-nil-guard"},
		Explanation: "Decides the table agreements that JSON round-trip losslessness rests on: for every kind with hand-written codecs, every component is both encoded and decoded (codec-symmetry); every member the Swagger 2.0 / draft-4 meta-schemas define for a kind has a byte-identical JSON field or hand-coded holder (keyword-table); numeric keywords are pointer-typed and no omitempty sits on a non-pointer numeric (zero-preserving); anonymous encode proxies carry and populate every member of the component they replace (proxy-complete); writer and reader of $ref/$schema agree on the member name (ref-key). Added after seeding round 2: encoders emit user-chosen member names exactly (name-verbatim, both directions); the decoded $ref text reaches the reference parser unrewritten (ref-key text-verbatim); a slice filled by append starts empty (make-append-json); first-byte dispatches look at every input of two bytes or more, so {} and [] are dispatched (dispatch-admits-shortest); a decoder gives up early only on a nil test, never because the decoded value equals a zero constant (absence-is-nil). encoder-constants-decodable also folds decode+encode of every constant text an encoder can emit (true, false, {}, null) and requires the constant to come back. Added in round 5: a decoder that allocates a map on first use stores the element outside the `map == nil` branch (store-outside-nil-guard); named encode proxies returned by view functions are checked like anonymous ones (proxy-complete).",
		NotCovered:  "round-trip equality of values (number formatting, free-form payloads, escaping of member names - see C06), deep nesting and combinations; x- members on externalDocs/xml objects (no holder in the types; informational note only)",
	})
}

func init() {
	registerProperty(&Property{
		ID:          "C19",
		Rules:       []string{"required-emitted", "keyword-table", "escape", "codec-no-panic", "ref-clear", "containers", "dispatch-admits-shortest"},
		Explanation: "Decides the per-member half of validity preservation: for every kind and every member its meta-schema definition(s) require, the encoder cannot drop the member from a value decoded from a valid document (decided from the Go type, omitempty, the proxy special-casing in MarshalJSON partially evaluated under the definition's own enum constraints, and the definition's constraint on the member); and no member is renamed into something the closed definitions reject (keyword-table). dispatch-admits-shortest: the Or-type decoders dispatch the two-byte texts {} and [] like any other object/array (an empty items object would otherwise re-encode as null).",
		NotCovered:  "validity of everything else (formats, oneOf selection, uniqueness), validity of expanded schemas' contents; the expansion half (holder either pure $ref or dereferenced with Ref cleared) is decided by ref-clear/containers under C03",
	})
}

func init() {
	registerProperty(&Property{
		ID:          "C20",
		Rules:       []string{"copy-map", "clear-exact"},
		Explanation: "The validation accessors are straight-line field copies and guarded clears, so their input/output relation is their shape. copy-map abstracts every SetValidations/Validations/WithValidations body (following delegation) to a map destination-field <- source-field over the field universe taken from the types and requires the identity on the carrier's validation set and no other write. clear-exact checks every Clear*Validations: each (guard, record, clear) triple names one field, reports its JSON keyword, records before clearing, stores the zero value; the cleared set equals the draft-4 family intersected with the carrier; nothing else is written; callbacks are applied by a deferred apply over the same slice; apply calls every callback once per record; Has*Validations reads only fields the matching clear clears. Since round 5 both rules are decided on the effect normal form of each accessor (effsim.go): package helpers and function literals inlined, loops over literal tables unrolled, pointers to fields followed; so the copy maps and the (guard, record, clear, apply-once) discipline hold or fail for what the code does on each structural path, not for how it is spelled.",
		NotCovered:  "aliasing (the set returned by Validations shares pointers with the receiver); HasXValidations being true before a clear for every member of the family (the property only requires it false afterwards)",
	})
}

func init() {
	registerProperty(&Property{
		ID:          "C15",
		Rules:       []string{"lookup-table", "marshal-receiver", "lookup-guard"},
		Explanation: "Decides, for every hand-written JSONLookup, agreement with the encoder's tables: a kind whose encoder emits vendor extensions consults Extensions[token]; every tag-driven component the encoder emits is consulted with jsonpointer.GetForToken (maps are indexed by the token); between two consultations a not-found failure falls through (the early error return is guarded by the negated test on the error text, whose constant is a prefix of the format string the pinned jsonpointer uses at its struct-field-not-found site, read from the module cache); the last consultation's result is returned; computed member names (default, decimal status codes) are answered; every kind C15 lists has a JSONLookup. lookup-guard: where a JSONLookup restricts a map consultation by a predicate on the member name, the decoders file names into that map under the same predicate; where it delegates to an alternative of the receiver depending on the receiver's state, the encoder emits that alternative under the same condition. A value found by a consultation is handed back under nothing stricter than a nil test (a stricter test such as swag.IsZero hides members that are present with a zero value). Since round 5 fall-through, final return, comma-ok and the guards on map consultations are read off the effect normal form of each JSONLookup (helpers, variadic packs, loops over literal lists and switches all normalise to the same sequence of consultations and conditions); a component is also accepted when every one of its members is answered by name from the field of that name.",
		NotCovered:  "value equality of what is returned; $ref members (excluded by the property); escape decoding of tokens and reflection-based lookup on plain structs (jsonpointer/swag, trusted)",
	})
}

func init() {
	registerProperty(&Property{
		ID:          "C06",
		Rules:       []string{"escape", "fragment-disjoint", "map-order", "total-order", "encode-readonly", "name-verbatim", "ok-before-compare", "encode-errflow"},
		Explanation: "Decides the structural conditions of well-formed, collision-free, deterministic encoding: in every function reachable from a MarshalJSON method, whatever is written to an output buffer or returned as bytes is a constant, an encoder result (json.Marshal, MarshalJSON, strconv quoting, ConcatJSON of such) or a constant package table (escape); fragments concatenated into one object have pairwise disjoint tagged names, no tagged name enters the x- / path key space, user-keyed maps pass a constant-prefix filter, and Schema.ExtraProps is only filled after every tagged name, $ref, $schema and x- key has been removed (fragment-disjoint); a range over a map only feeds another map or a slice sorted before use (map-order); sort comparators break ties (total-order). name-verbatim: encoders store map keys of the model into the output under the key itself, not a rewriting of it. ok-before-compare: in the sort comparator a rank obtained with an ok flag is compared only where the flag is known true (decided by truth table over the flags), so the placeholder of an absent x-order never takes part in the order. Added in round 5: in every function reachable from an encoder the error of each encoding call is returned or tested on the very variable it was assigned to, the error branch returning it (encode-errflow); a comparator does not discard the ok of a (rank, ok) producer, and its constant answers for 'only the left / only the right item has a rank' mirror each other (ok-before-compare).",
		NotCovered:  "validity of free-form payload encoding (encoding/json), byte-identity across runs as an observed fact, duplicate keys arising from case-insensitive matching in encoding/json's decoder",
	})
}

func init() {
	registerProperty(&Property{
		ID:          "C14",
		Rules:       []string{"gob-shapes", "gob-proxy-symmetry", "gob-via-json", "codec-must-pass", "make-append", "encode-nil-empty-alike"},
		Explanation: "Which Go shapes gob cannot carry is a property of types: gob-shapes walks the type graph from the types the property names exactly as encoding/gob does (exported fields, through pointers, slices, maps and embedded structs; at a type with GobEncode it continues from the proxy value that body hands to the encoder, method-less aliases included) and reports every position of a lossy shape with a JSON-visible effect: L1 pointer to a basic type (pointed-to zero omitted, comes back nil), L2 interface{} position (empty container comes back nil), L4 struct with only unexported state and no codec; and checks the gob.Register calls. gob-proxy-symmetry checks every GobEncode/GobDecode pair: same proxy type, every receiver component covered on both sides, every proxy field set and consumed, and the nil / empty / non-empty security states distinguished on both sides. gob-via-json reduces Ref's gob law to its JSON law. make-append: no gob codec makes a slice with a non-zero length and then appends to it.",
		NotCovered:  "equality of values after transport; L3 (nil-versus-empty slices whose difference is JSON-visible) beyond the security padding codec; behaviour of encoding/gob itself",
	})
	registerProperty(&Property{
		ID:          "C13",
		Rules:       []string{"ref-key", "gob-via-json", "ref-opaque", "codec-must-pass", "absence-is-nil"},
		Explanation: "Canonicalisation and classification live in jsonreference and net/url (trusted). Decided, as necessary conditions of the JSON/gob half: writer and reader of $ref use the same member name and Ref.MarshalJSON's constant outputs parse (at analysis time) to {} or an object with exactly that member (ref-key); Ref's gob codec wraps its JSON codec and propagates every error (gob-via-json); no function of the package stores into jsonreference.Ref's classification flags or builds one by literal, and every spec.Ref literal wraps a parsed reference, so classification stays a function of the parsed text (ref-opaque). ref-key also requires that Ref.fromMap hands the decoded member text itself to the reference parser. absence-is-nil: the decoder of a reference leaves the receiver untouched only on nil tests, so the present-but-empty {\"$ref\":\"\"} (the root reference) is not taken for an absent member.",
		NotCovered:  "idempotence of canonicalisation, equality of decoded references, classification correctness: all value-level inside jsonreference/net/url",
	})
}

func init() {
	registerProperty(&Property{
		ID:          "C03",
		Rules:       []string{"visit", "containers", "ref-clear", "ref-store", "opts-copy-complete", "cut-check", "location-prefix", "denorm-final", "origin-compare", "escaped-into-decoded"},
		Explanation: "Decides the per-site disciplines 'only cycle cut-points remain' rests on. visit: every access path from Schema to a nested Schema (enumerated from the types, so a new schema-bearing field adds an obligation) is passed to the schema expander and the dereferenced result stored back at the same path. containers: every holder of refable elements (Swagger, PathItem, Operation, Parameter, Response; positions enumerated from the types) is handed to the matching expander, and by-value copies are written back. ref-clear (go/cfg must-analysis): every path from a completed dereference to a successful return stores the zero Ref into the holder. ref-store: every other store into a schema's Ref is a rewrite of a normalised reference against the root context (basePath, rootID) - or the normalised reference itself under AbsoluteCircularRef - and is control-dependent on isCircular having returned true, on skip-schemas mode, or on the empty-root-ref guard. location-prefix: a location (URL text, URL path) is used as a string prefix of another only where it is known to be empty or slash-terminated, so the relative $ref kept at a cut-point is cut at a segment boundary. denorm-final: once a $ref has been rewritten relative to the root document the value holding it is not handed to an expander again (it would be read against the current document's base a second time). origin-compare: component-wise comparisons of two locations include scheme and host, the host with its port. containers additionally requires that an element is handed to its expander under no condition on another part of the same holder (an operation without responses still has its parameters expanded).",
		NotCovered:  "that a kept $ref actually resolves to a node on a cycle; that denormalizeRef/rebase compute the right relative form; determinism of the output beyond C06's rules",
	})
}

func init() {
	registerProperty(&Property{
		ID:          "C04",
		Rules:       []string{"cut-check", "nilres", "no-panic-path", "ptr-fill-guard", "typed-nil-guard", "err-before-use-expand", "id-once"},
		Explanation: "Termination over all graphs is not decidable here; decided are the mechanism's necessary conditions. cut-check: every cyclic SCC of the package's static call graph is classified call site by call site as structural descent (argument strictly below the callee's parameter, parent stack passed unchanged) or reference following (on every path to the recursive call isCircular(k, base, parentRefs...) returned false for a normalised k, and the call receives append(parentRefs, k.String()) for that same k); recursion outside the family, or a cycle of pass-through calls, is a violation; isCircular uses one normalised key for memo lookup, stack comparison and memo store. nilres: a nil *Schema result implies a provably non-nil error, and results are dereferenced only after a plain err != nil return or under an explicit != nil guard. no-panic-path: the panic-capable constructs (Must*, panic, unchecked type assertions, unguarded index/slice expressions, stores into possibly-nil maps) reachable from the exported Expand*/Resolve* entry points equal an audited table. err-before-use-expand: a pointer result that comes with an error is dereferenced only where that error is known to be nil or the pointer known non-nil (or was repaired on the error path). id-once: the id-applying helper refuses to apply an id to a base path that the same id produced (it keeps and consults a record base -> id), so a $ref back to the id's own location cannot grow the base at every unfolding.",
		NotCovered:  "that the loop variant is bounded (id-driven base path growth makes canonical keys unbounded - invisible structurally), stack depth, work bounds, panics inside dependencies",
	})
}

func init() {
	registerProperty(&Property{
		ID:          "C08",
		Rules:       []string{"errflow", "single-decision", "nilres", "ref-store", "continue-honoured", "ptr-fill-guard", "opts-copy-complete", "lookup-table"},
		Explanation: "The error-discipline template filled from the repository. errflow: in every function reachable from an exported Expand*/Resolve* entry point, every call that can fail (package-internal error-returning functions, the document loader called through its field, DynamicJSONToStruct, Pointer.Get, json.Unmarshal, jsonreference.New) has its error returned directly, or tested by the very next statement with `err != nil` / the stop predicate and the same value returned on that branch, or tested with `err == nil`; blank assignment, a dropped result, an intervening overwrite, a check on another variable, or returning nil in the error branch are violations; two audited exceptions are keyed by caller:callee#n with a reason. single-decision: ContinueOnError is read in exactly one function, a predicate over the error whose body answers 'stop' only under err != nil && !ContinueOnError and does so first. nilres and ref-store (shared with C04/C03) make continuing safe and leave a failed $ref verbatim. continue-honoured: once the stop predicate has let an error through, that error is not returned. ptr-fill-guard: the value filled by a resolution is used only where the error of that resolution is known to be nil (a half-decoded ill-typed target must not replace the $ref).",
		NotCovered:  "that every unresolvable target produces an error inside the dependencies; spurious errors on well-formed input (value-level); that everything not depending on a failed $ref is expanded as it would have been otherwise",
	})
}

func init() {
	registerProperty(&Property{
		ID:          "C02",
		Rules:       []string{"thread-args", "switch-on-follow", "ref-store", "opts-copy-complete", "loader-shares-state", "entry-wiring", "location-prefix", "chain-ref-absolute", "denorm-final", "origin-compare", "escaped-into-decoded"},
		Explanation: "Bisimilarity is a relation between run-time graphs and is not decided. Decided are the threading disciplines behind 'a $ref is always interpreted relative to the document that textually contains it': at every call between expander family members (found by role) the base-path argument derives only from the caller's own base path, from id re-scoping (setSchemaID), from updateBasePath for the resolver just created, or from RemoteURI() of the normalised ref just followed, and the loader argument only from the caller's loader or from transitiveResolver(current base, the $ref being followed) (thread-args); after a followed $ref, whatever is expanded next receives the transitive resolver and the updated base (switch-on-follow); kept refs are rewritten against the root frame (ref-store). location-prefix: 'same document' and 'below this folder' are never decided by a plain string prefix of one location in another (spec.json vs spec.json2); two genuine defects of that kind were found and repaired. chain-ref-absolute: the chain dereference, which moves to another base at every hop, continues each hop on the resolver for that hop's document and leaves the last $ref of a chain in absolute form for its callers. denorm-final and origin-compare as under C03. Five genuine defects of this kind were found (three of them first reported by independent seeding agents) and repaired. escaped-into-decoded: the decoded components of a url.URL are never assigned escaped text. chain-ref-absolute also requires that the hop guard excludes only the first hop and that the resolver of the next hop is chosen from the normalised reference of the hop just followed. Added in round 5 (chain-ref-absolute): the loader switch of the chain dereference compares the reference with the very base it was normalised against, still unmoved (resolver-switch-base); in the loop form it is made from the loop-carried loader (resolver-switch-from) and the base carried to the next hop is the document of the normalised reference (next-base); switch-on-follow also refuses a scope switched on a by-value copy of the $ref taken before it was followed, and accepts transitiveResolver+updateBasePath packaged in one helper.",
		NotCovered:  "that normalizeURI, transitiveResolver's prefix test or resolveRef's root selection compute the right document (values) - in particular the wrong-document resolutions on multi-hop chains the property text mentions are value-level and invisible to these rules; map iteration order effects",
	})
	registerProperty(&Property{
		ID:          "C09",
		Rules:       []string{"skip-shape", "containers", "ref-clear", "ref-store", "opts-copy-complete", "switch-on-follow", "thread-args", "entry-wiring", "location-prefix", "denorm-final", "origin-compare", "escaped-into-decoded", "chain-ref-absolute"},
		Explanation: "Decides the shape of skip-schemas mode: in the schema expander the statements executed under SkipSchemas call nothing that resolves references, change nothing but the schema's Ref and return the target itself; that Ref store is a root-frame rewrite of a normalised reference (ref-store). In ExpandSpec only the definitions loop is control-dependent on !SkipSchemas; parameters, responses and path items are expanded unconditionally, completely dereferenced and cleared (containers, ref-clear), and the schema below a dereferenced parameter/response is still handed to the schema expander so nested refs are rebased. location-prefix: the folder a kept $ref is rebased against is slash-terminated where it is trimmed. denorm-final, origin-compare: as under C03 (the kept $ref must stay valid).",
		NotCovered:  "that the rebased string designates the same target; that a later full expansion gives the same outcome as a direct one",
	})
}

func init() {
	registerProperty(&Property{
		ID:          "C17",
		Rules:       []string{"no-goroutines", "lockset", "no-call-under-lock", "globals", "ctx-private", "encode-readonly"},
		Explanation: "The package starts no goroutine (checked), so all concurrency is the caller's and the package's obligations are about what two calls can share. lockset (go/cfg must-hold): every access to a field of a struct that carries a sync.(RW)Mutex happens with the write lock (writes) or at least the read lock (reads) held on every path, and no return is reachable with a lock held; one audited exception is tied to the who-calls fact that makes it sound. no-call-under-lock: nothing but map operations happens in a locked region; sync.Once is used only through Do with a function that does not re-enter. globals + ctx-private: two calls on independent data share no writable memory other than a caller-supplied cache. Since round 5 lockset and no-call-under-lock are decided on the effect normal form of every root function touching a locked type: lock wrappers, release functions returned by helpers, embedded mutexes and closures run under the lock are inlined, and reads / writes of protected fields are effects that must lie between an acquisition and a release of the right kind on every structural path.",
		NotCovered:  "that every call returns what it would have returned alone (value statement); thread-safety of swag.NameProvider and other dependencies; caller-implemented caches",
	})
	registerProperty(&Property{
		ID:          "C16",
		Rules:       []string{"globals", "ctx-private", "opts-immutable", "root-readonly", "cwd-at-call-time"},
		Explanation: "Inventory of every package-level variable with who-may-write obligations: the package cache is stored only by the function run under sync.Once and every load of it is the receiver of ShallowClone (so neither a caller nor the expander can Set into it or hand it out), ShallowClone returns a fresh map, the default loader is read only where a per-call resolver context is built, the logger is written only during package initialisation, everything else is never written (globals). Resolver contexts and loaders are created per call, built by one constructor, never returned by the API, never held by a global and never handed to a cache (ctx-private). The caller's options are cloned before any internal change (opts-immutable) and cached documents are never written through (root-readonly). cwd-at-call-time: the process working directory is read by ordinary functions at call time, never in a package-level initialiser, init() or under sync.Once.",
		NotCovered:  "documents being loaded afresh as an observed fact (follows from these rules plus C18's, not separately observed)",
	})
}

func init() {
	registerProperty(&Property{
		ID:          "C18",
		Rules:       []string{"load-once", "canon-key", "globals", "root-registered", "loader-shares-state", "id-once", "switch-on-follow", "load-only-needed", "supplied-cache-kept"},
		Explanation: "Transparency of results is value-level and not decided. Decided: the document loader (a func-typed field of the resolver context, found by role) is called at exactly one site, which is the field's only reader; that call is reachable only on the miss branch of a cache lookup; lookup, loader call and cache fill use one key variable assigned once from normalizeBase; every successful return after the load (go/cfg) has stored the decoded document under that key (load-once). Every other cache Get/Set uses a key produced by the normaliser, with the fragment cleared (canon-key), so 'already present in the supplied cache' is decided on the key the loader would be called with. The default cache is a clone of the built-in one (globals). Added in round 5: on the effect normal form of the reference resolver (helpers inlined down to the cached load), every request is for the document of the normalised reference, or - for the base location - is made only where the reference is known to be local and the resolver has no in-memory root (load-only-needed); the cache defaulter hands back any non-nil cache it is given, whatever its dynamic type (supplied-cache-kept).",
		NotCovered:  "that results are identical with and without a cache (values); the behaviour of caller-supplied cache implementations",
	})
	registerProperty(&Property{
		ID:          "C11",
		Rules:       []string{"canon-entry", "canon-key", "entry-wiring", "canon-normalizer", "cwd-at-call-time", "scheme-on-parsed"},
		Explanation: "Equality of results across spellings and idempotence of normalizeBase are value-level and not decided. Decided: every base location that enters through the API passes through the normaliser before it can reach a loader, a cache key or a family call: the options cloner replaces a non-empty RelativeBase by normalizeBase of itself and returns the clone; the pseudo-root helper returns a normalizeBase result; the loader factory substitutes it when no base is given; every entry point takes its base from the cloned options or from the pseudo-root helper (entry-wiring); every cache key and the argument of the document loader are normaliser results with the fragment cleared (canon-key). cwd-at-call-time: relative spellings are anchored at the working directory read at the time of the call. scheme-on-parsed: a function that parses a location never tests the scheme on the raw text (case-sensitive) instead of the parsed scheme.",
		NotCovered:  "that normalizeBase's output is scheme-present/absolute/cleaned and that it is idempotent (its contract: values); equality of expansion results across spellings",
	})
}

func init() {
	registerProperty(&Property{
		ID:          "C10",
		Rules:       []string{"entry-wiring", "opts-immutable", "root-readonly", "visit", "cut-check", "root-registered", "opts-copy-complete", "id-once", "factory-keeps-options", "chain-ref-absolute"},
		Explanation: "Sibling cross-check of the exported entry points: every Expand*/Resolve* function that builds a loader does so through the loader factory with a fresh context, with options that are either the clone of the caller's or a literal based on the pseudo-root location, passes to the expander family as base path the RelativeBase of those very options, and - for the *WithRoot / ExpandSchema variants - registers the root through the pseudo-root helper in the same cache value the loader receives, for the same root (entry-wiring). The caller's *ExpandOptions flows only into the cloner, which copies by value and never writes through its parameter (opts-immutable). The root and cached documents are only read (root-readonly). Because all entry points reach the same family members, visit and cut-check (completeness, termination mechanism) hold for each. factory-keeps-options: the loader factory works on the options value it was handed (entry points read the base back from it). id-once:registers-always: the id-scoped registration does not depend on what the cache already holds.",
		NotCovered:  "agreement of results between entry points (values); aliasing between the element and the root when the caller shares storage",
	})
	registerProperty(&Property{
		ID:          "C05",
		Rules:       []string{"resolve-pure", "root-readonly", "errflow", "resolve-strict", "typed-nil-guard", "lookup-table"},
		Explanation: "Decided: no Resolve* entry point reaches an expander or the chain dereference, so nested $refs are not followed (resolve-pure); root and cached documents flow only to nil tests, jsonpointer.Pointer.Get, the data argument of swag.DynamicJSONToStruct, cache.Set and returns of the loading method - never the base of a store, a type assertion or a decode target - and the result reaches the caller only through DynamicJSONToStruct, i.e. a deep copy (root-readonly); every error from load, Pointer.Get and DynamicJSONToStruct reaches the caller, so a reference that designates nothing cannot yield a zero value with a nil error through a swallowed error (errflow). typed-nil-guard also requires the guard to cover every way of designating nothing: the untyped nil and nil maps/slices, not only nil pointers.",
		NotCovered:  "that the URI/pointer arithmetic designates the right node; pointer escape decoding (jsonpointer); equality of the three ways of supplying the root (the typed-versus-generic half is C15's rule)",
	})
}

func init() {
	registerProperty(&Property{
		ID:          "C07",
		Rules:       []string{"codec-no-panic", "bounded-recursion", "encoder-constants-decodable", "total-order", "map-order", "err-before-use", "absence-is-nil", "ok-before-compare"},
		Explanation: "Decides the totality half structurally. codec-no-panic: in every function reachable from any UnmarshalJSON, MarshalJSON, GobEncode, GobDecode, fromMap or JSONLookup method (static callees plus sort.Interface methods) there is no panic-capable construct: no Must*/panic call, no single-result type assertion outside a type switch, every index on the input bytes is dominated by a length guard that implies it is in range, every other index/slice expression is bounded by its loop, and every store into a field map is dominated by the nil-check-and-make idiom or targets a freshly made map. bounded-recursion: no codec method lies on a static call cycle, and none hands its own whole input (or receiver) back to encoding/json at a type whose method set resolves to that very method; recursion therefore only goes through encoding/json on strictly nested values, bounded by its nesting limit. err-before-use: inside the codecs no pointer result is dereferenced before its error is tested. absence-is-nil: an early return that leaves the receiver untouched is taken on nil tests only, so a present \"\" or 0 is not normalised away differently on the second pass. ok-before-compare: as under C06 (a comparator that is no strict weak order makes re-encoding differ from run to run).",
		NotCovered:  "the fixed-point law decode.encode.decode.encode = decode.encode (value-level; e.g. \"items\": [] -> null is not detected); panics or hangs inside dependencies; stack depth of encoding/json itself",
	})
}
