// specvet decides structural necessary conditions of the properties in
// /verif/properties.jsonl for go-openapi/spec by static analysis of /repo's
// current source. It never executes the package.
package main

import (
	"encoding/json"
	"flag"
	"fmt"
	"go/types"
	"os"
	"sort"
	"strconv"
	"strings"
	"time"
)

func main() {
	prop := flag.String("property", "", "property id (C01..C20)")
	tier := flag.String("tier", "", "quick | thorough (default $VERIF_TIER or quick)")
	repo := flag.String("repo", "/repo", "path of go-openapi/spec")
	replay := flag.String("replay", "", "replay file")
	list := flag.Bool("list", false, "list properties and rules")
	noEvidence := flag.Bool("no-evidence", false, "do not write the evidence file")
	all := flag.Bool("all", false, "development aid: run every rule once on one load and print, per property, the obligations that are not discharged (no evidence, no replay files)")
	simdump := flag.String("simdump", "", "development aid: print the effect normal form of one function (Type.Method or name)")
	flag.Parse()
	if *simdump != "" {
		c, err := load(*repo, "linux", "amd64")
		if err != nil {
			fmt.Println("CHECKER-ERROR", err)
			os.Exit(2)
		}
		for _, fd := range c.allFuncDecls() {
			if c.funcName(fd) != *simdump || fd.Body == nil {
				continue
			}
			var inl func(*types.Func) bool
			if reach := os.Getenv("SIMREACH"); reach != "" {
				inl = func(f *types.Func) bool {
					return f.Name() != reach && c.reaches(f, func(h *types.Func) bool { return h.Name() == reach })
				}
			}
			paths, unsup := c.simulate(fd, inl)
			if os.Getenv("SIMINDEX") != "" {
				paths, unsup = c.simulateIndexed(fd)
			}
			fmt.Printf("%s: %d paths, unsupported=%q\n", *simdump, len(paths), unsup)
			for i, p := range paths {
				fmt.Printf("-- path %d\n", i)
				for _, cd := range p.conds {
					fmt.Printf("   cond neg=%v loop=%v %s\n", cd.neg, cd.loop, svString(cd.v))
				}
				for _, e := range p.effs {
					switch e.kind {
					case "write":
						fmt.Printf("   [%d] write %s := %s\n", e.ncond, svString(e.dst), svString(e.val))
					case "call":
						fmt.Printf("   [%d] call %s\n", e.ncond, svString(*e.call))
					case "append":
						fmt.Printf("   [%d] append %s <- %s\n", e.ncond, svString(e.base), svString(svList{e.elems}))
					}
				}
				fmt.Printf("   return %s\n", svString(svList{p.rets}))
			}
		}
		return
	}
	if *all {
		os.Exit(runAll(*repo))
	}

	if *list {
		ids := sortedKeys(propTable)
		for _, id := range ids {
			fmt.Printf("%s: %s\n", id, strings.Join(propTable[id].Rules, ", "))
		}
		return
	}
	if *tier == "" {
		*tier = os.Getenv("VERIF_TIER")
	}
	if *tier == "" {
		*tier = "quick"
	}
	if *tier != "quick" && *tier != "thorough" {
		fmt.Println("CHECKER-ERROR unknown tier", *tier)
		os.Exit(2)
	}
	seed, _ := strconv.Atoi(os.Getenv("VERIF_SEED"))

	if *replay != "" {
		os.Exit(doReplay(*replay, *repo))
	}
	p := propTable[*prop]
	if p == nil {
		fmt.Printf("CHECKER-ERROR unknown property %q\n", *prop)
		os.Exit(2)
	}
	start := time.Now()
	configs := [][2]string{{"linux", "amd64"}}
	if *tier == "thorough" {
		configs = append(configs, [2]string{"windows", "amd64"}, [2]string{"linux", "386"})
	}
	res, err := runProperty(p, *repo, configs)
	if err != nil {
		// a tree that does not load or type-check cannot be shown to hold the property
		fmt.Printf("CHECKER-ERROR %v\n", err)
		rp := writeReplay(verifDir(), p.ID, &Obligation{Rule: "load", Key: "package", Verdict: "undecided", Why: err.Error()})
		fmt.Printf("VIOLATION property=%s replay=%s\n", p.ID, rp)
		os.Exit(1)
	}
	extra := map[string]interface{}{}
	selfOK := true
	if *tier == "thorough" && os.Getenv("SPECVET_NOSELFTEST") == "" {
		var st []selfTestResult
		st, selfOK = runSelfTest(p.ID, *repo)
		n := map[string]int{}
		for _, r := range st {
			n[r.Status]++
		}
		extra["checker_selftest"] = map[string]interface{}{
			"what":    "mutation corpus: one rule instance broken per scratch copy of /repo; the rule must report it (tests the analysis, the library is never executed)",
			"results": st, "counts": n,
		}
		base := map[string]bool{}
		for _, o := range res.obs {
			if o.Verdict != "discharged" {
				base[o.FullKey()] = true
			}
		}
		nt, nOK := runNeutralTest(p.ID, *repo, base)
		nn := map[string]int{}
		for _, r := range nt {
			nn[r.Status]++
		}
		extra["checker_neutral_test"] = map[string]interface{}{
			"what":   "behaviour-preserving refactorings of /repo (corpus /verif/refactors) applied to scratch copies: the check must report nothing it does not report on the tree itself",
			"counts": nn,
		}
		if !nOK {
			selfOK = false
		}
	}
	code := report(p, *tier, seed, res, start, extra, !*noEvidence)
	if !selfOK {
		fmt.Println("CHECKER-ERROR the checker self-test failed (a located mutant was not reported, or a behaviour-preserving refactoring raised an alarm): the checker is broken; this is not a statement about /repo")
		if code == 0 {
			code = 2
		}
	}
	os.Exit(code)
}

func doReplay(path, repo string) int {
	b, err := os.ReadFile(path)
	if err != nil {
		fmt.Println("CHECKER-ERROR", err)
		return 2
	}
	var rf replayFile
	if err := json.Unmarshal(b, &rf); err != nil {
		fmt.Println("CHECKER-ERROR", err)
		return 2
	}
	p := propTable[rf.Property]
	if p == nil {
		fmt.Println("CHECKER-ERROR unknown property", rf.Property)
		return 2
	}
	cf := [2]string{"linux", "amd64"}
	if parts := strings.Split(rf.Config, "/"); len(parts) == 2 {
		cf = [2]string{parts[0], parts[1]}
	}
	res, err := runProperty(p, repo, [][2]string{cf})
	if err != nil {
		fmt.Printf("CHECKER-ERROR %v\nVIOLATION property=%s replay=%s\n", err, p.ID, path)
		return 1
	}
	var hits []*Obligation
	for _, o := range res.obs {
		if o.Rule == rf.Rule && o.Key == rf.Key {
			hits = append(hits, o)
		}
	}
	sort.Slice(hits, func(i, j int) bool { return hits[i].Pos < hits[j].Pos })
	if len(hits) == 0 {
		fmt.Printf("replay: obligation %s:%s no longer exists on this tree\n", rf.Rule, rf.Key)
		return 0
	}
	code := 0
	for _, o := range hits {
		fmt.Printf("replay: %s %s:%s @%s %s\n", o.Verdict, o.Rule, o.Key, o.Pos, o.Why)
		if o.Verdict != "discharged" {
			code = 1
		}
	}
	if code == 1 {
		fmt.Printf("VIOLATION property=%s replay=%s\n", p.ID, path)
	}
	return code
}

// runAll loads the tree once, runs every registered rule once and attributes the results to the properties
// that include the rule. Used by the regression scripts over seeded changes and neutral refactorings.
func runAll(repo string) int {
	c, err := load(repo, "linux", "amd64")
	if err != nil {
		fmt.Printf("CHECKER-ERROR %v\n", err)
		return 2
	}
	known, _ := loadKnown(verifDir() + "/known_findings.txt")
	rules := sortedKeys(ruleTable)
	byRule := map[string][]*Obligation{}
	for _, rn := range rules {
		r := ruleTable[rn]
		before := len(c.obs)
		func() {
			defer func() {
				if e := recover(); e != nil {
					c.undecided(rn, "rule-panic", 0, fmt.Sprint(e))
				}
			}()
			r.Run(c)
		}()
		n := len(c.obs) - before
		if n < r.Floor {
			c.add(rn, "floor", 0, "violated", fmt.Sprintf("rule matched %d constructs, floor is %d", n, r.Floor))
		}
		byRule[rn] = append([]*Obligation{}, c.obs[before:]...)
	}
	code := 0
	for _, pid := range sortedKeys(propTable) {
		p := propTable[pid]
		for _, rn := range p.Rules {
			for _, o := range byRule[rn] {
				if o.Verdict == "discharged" {
					continue
				}
				isKnown := false
				for _, k := range known {
					if k.Property == pid && k.Key == o.FullKey() && o.Verdict == "violated" {
						isKnown = true
					}
				}
				if isKnown {
					continue
				}
				fmt.Printf("%s %s %s @%s %s\n", pid, strings.ToUpper(o.Verdict), o.FullKey(), o.Pos, o.Why)
				code = 1
			}
		}
	}
	return code
}
