package main

import (
	"fmt"
	"go/ast"
	"go/token"
	"go/types"
)

func init() {
	registerRule("load-only-needed", 1, "a reference resolution asks the loader for the document the reference designates; the base document is asked for only when the reference is local to it and no in-memory root stands for it", ruleLoadOnlyNeeded)
}

// ruleLoadOnlyNeeded (C18): on the effect normal form of the reference resolver (helpers inlined down to the
// cached load), every request for a document is either for the document of the normalised reference, or - when
// it is for the base location - is made only on paths where the reference is known to be local (root or
// fragment-only) and the resolver holds no in-memory root. A base document requested for every reference is
// requested although the cache (or nobody) needs it, and again on every resolution when it cannot be loaded.
func ruleLoadOnlyNeeded(c *Ctx) {
	const rule = "load-only-needed"
	fam := c.family()
	if !fam.ok() || fam.resolveRef == nil {
		c.undecided(rule, "family", token.NoPos, "reference resolver not found by role")
		return
	}
	var loadFn *types.Func
	for _, fd := range c.allFuncDecls() {
		if fd.Body == nil {
			continue
		}
		ast.Inspect(fd.Body, func(n ast.Node) bool {
			if call, ok := n.(*ast.CallExpr); ok && c.isDocLoaderCall(call) {
				loadFn, _ = c.Info.Defs[fd.Name].(*types.Func)
			}
			return true
		})
	}
	if loadFn == nil {
		c.undecided(rule, "load", token.NoPos, "the function calling the document loader was not found")
		return
	}
	fd := c.decl(fam.resolveRef)
	fn := c.funcName(fd)
	c.saw(fn)
	var refParam, baseParam types.Object
	sig := fam.resolveRef.Type().(*types.Signature)
	for i := 0; i < sig.Params().Len(); i++ {
		t := sig.Params().At(i).Type()
		switch {
		case isNamed(derefType(t), c.Types, "Ref"):
			refParam = c.paramObj(fd, i)
		case isStringType(t):
			baseParam = c.paramObj(fd, i)
		}
	}
	recv := c.recvObj(fd)
	if refParam == nil || baseParam == nil || recv == nil {
		c.undecided(rule, fn, fd.Pos(), "reference / base parameters not found")
		return
	}
	paths, unsup := c.simulate(fd, func(f *types.Func) bool {
		return f != loadFn && c.reaches(f, func(h *types.Func) bool { return h == loadFn })
	})
	if unsup != "" {
		c.undecided(rule, fn, fd.Pos(), "outside the fragment the effect normal form supports: "+unsup)
		return
	}
	mentions := func(v sval, o types.Object) bool {
		found := false
		svWalk(v, func(x sval) {
			if p, ok := x.(svPath); ok && p.root == o {
				found = true
			}
		})
		return found
	}
	type verdict struct {
		ok  bool
		why string
		n   int
	}
	sites := map[token.Pos]*verdict{}
	var order []token.Pos
	for _, p := range paths {
		local, noRoot := false, false
		for _, cd := range p.conds {
			if cd.loop {
				continue
			}
			// ref.IsRoot() / ref.HasFragmentOnly
			if !cd.neg && mentions(cd.v, refParam) {
				switch x := cd.v.(type) {
				case svCall:
					if f, ok := x.callee.(*types.Func); ok && f.Name() == "IsRoot" {
						local = true
					}
				case svPath:
					if len(x.steps) > 0 && x.steps[len(x.steps)-1] == "HasFragmentOnly" {
						local = true
					}
				}
			}
			// the in-memory root of the resolver is nil
			if b, ok := cd.v.(svBin); ok && (b.op == token.EQL && !cd.neg || b.op == token.NEQ && cd.neg) {
				if _, isNil := b.y.(svNil); isNil && mentions(b.x, recv) {
					noRoot = true
				}
			}
		}
		for _, e := range p.effs {
			if e.kind != "call" || e.call.callee != types.Object(loadFn) || len(e.call.args) == 0 {
				continue
			}
			pos := e.call.call.Pos()
			v := sites[pos]
			if v == nil {
				v = &verdict{ok: true}
				sites[pos] = v
				order = append(order, pos)
			}
			v.n++
			arg := e.call.args[0]
			switch {
			case mentions(arg, refParam):
				// the document the reference designates
			case mentions(arg, baseParam):
				if !(local && noRoot) && v.ok {
					v.ok = false
					v.why = "the base document is requested from the loader on a path where the reference is not known to be local to it (root or fragment-only) with no in-memory root: it is fetched for every reference, although the cache may already hold everything needed, and again at every resolution when it cannot be loaded"
				}
			default:
				if v.ok {
					v.ok, v.why = false, "a document is requested whose location comes neither from the reference nor from the base: "+svString(arg)
				}
			}
		}
	}
	for i, pos := range order {
		v := sites[pos]
		c.ob(rule, fmt.Sprintf("%s:load#%d", fn, i+1), pos, v.ok, v.why)
	}
	if len(order) == 0 {
		c.ob(rule, fn+":loads", fd.Pos(), false, "the reference resolver never reaches the cached document load")
	}
}

func init() {
	registerRule("encode-errflow", 20, "an error raised while encoding a part of a value reaches the caller of the encoder: output is never produced from the parts that happened to encode", ruleEncodeErrFlow)
}

// isEncoderSource: a call whose error means "this part could not be encoded".
func (c *Ctx) isEncoderSource(call *ast.CallExpr) bool {
	f, ok := c.callee(call).(*types.Func)
	if !ok {
		return false
	}
	if f.Pkg() == c.Types {
		return true
	}
	if f.Pkg() == nil {
		return false
	}
	switch f.Pkg().Path() + "." + f.Name() {
	case "encoding/json.Marshal", "encoding/json.MarshalIndent", "github.com/go-openapi/swag.WriteJSON":
		return true
	}
	return f.Name() == "MarshalJSON" || f.Name() == "Encode"
}

// ruleEncodeErrFlow (C06): in every package function reachable from a JSON encoder method, the error of every
// encoding call is returned, or tested by the very next statement on the very variable it was assigned to, with
// the error branch returning it (or leaving a loop after which that same variable is tested and returned).
func ruleEncodeErrFlow(c *Ctx) {
	const rule = "encode-errflow"
	for _, fd := range c.reachableFrom("MarshalJSON", "MarshalNextJSON", "MarshalEasyJSON") {
		fn := c.funcName(fd)
		if fd.Type.Results == nil {
			continue
		}
		returnsErr := false
		for _, r := range fd.Type.Results.List {
			if t := c.typeOf(r.Type); t != nil && isErrorType(t) {
				returnsErr = true
			}
		}
		if !returnsErr {
			continue
		}
		ord := map[string]int{}
		for _, s := range c.errorSites(fd) {
			if !c.isEncoderSource(s.call) {
				continue
			}
			c.saw(fn)
			ord[s.calleeName]++
			key := fmt.Sprintf("%s:%s#%d", fn, s.calleeName, ord[s.calleeName])
			ok, why := c.errorFate(fd, s)
			if !ok {
				// `if err != nil { break }` inside a loop, and the same variable tested and returned right after the loop
				if good := c.breakThenReturned(fd, s); good {
					ok, why = true, ""
				}
			}
			if !ok && s.form == "assigned" && s.idx == len(s.block)-1 {
				// assigned as the last statement of a branch: the statement after the whole if/switch tests it
				if nx := c.stmtAfterEnclosing(fd, s.stmt); nx != nil {
					if ifs, isIf := nx.(*ast.IfStmt); isIf {
						if k := c.errCheckKind(ifs.Cond, s.errObj); k == "nonnil" {
							ok, why = c.branchPropagates(fd, ifs.Body, s.errObj)
						}
					}
				}
			}
			c.ob(rule, key, s.call.Pos(), ok, "while encoding: "+why+" - the bytes returned would silently lack the part that failed")
		}
	}
}

// breakThenReturned: the error is tested by the next statement, whose branch leaves the enclosing loop, and the
// first statement after that loop tests the same variable and returns it.
func (c *Ctx) breakThenReturned(fd *ast.FuncDecl, s errSite) bool {
	var ifs *ast.IfStmt
	switch s.form {
	case "if-init":
		ifs = s.ifStmt
	case "assigned":
		if s.idx+1 < len(s.block) {
			ifs, _ = s.block[s.idx+1].(*ast.IfStmt)
		}
	}
	if ifs == nil || s.errObj == nil {
		return false
	}
	if k := c.errCheckKind(ifs.Cond, s.errObj); k != "nonnil" {
		return false
	}
	if len(ifs.Body.List) == 0 {
		return false
	}
	br, ok := ifs.Body.List[len(ifs.Body.List)-1].(*ast.BranchStmt)
	if !ok || br.Tok != token.BREAK || br.Label != nil {
		return false
	}
	// the innermost loop around the test, and the statement that follows it in its block
	var loop ast.Stmt
	var after ast.Stmt
	var walk func(list []ast.Stmt)
	walk = func(list []ast.Stmt) {
		for i, st := range list {
			if st.Pos() <= ifs.Pos() && ifs.End() <= st.End() {
				switch x := st.(type) {
				case *ast.ForStmt, *ast.RangeStmt:
					loop = st
					after = nil
					if i+1 < len(list) {
						after = list[i+1]
					}
					_ = x
				}
				ast.Inspect(st, func(n ast.Node) bool {
					if b, ok := n.(*ast.BlockStmt); ok && n != ast.Node(st) {
						if b.Pos() <= ifs.Pos() && ifs.End() <= b.End() {
							walk(b.List)
							return false
						}
					}
					return true
				})
				return
			}
		}
	}
	walk(fd.Body.List)
	if loop == nil || after == nil {
		return false
	}
	nx, ok := after.(*ast.IfStmt)
	if !ok || c.errCheckKind(nx.Cond, s.errObj) != "nonnil" {
		return false
	}
	good, _ := c.blockReturnsErr(nx.Body, s.errObj)
	return good
}

// stmtAfterEnclosing: st is the last statement of a branch of an if / switch statement; returns the statement
// that follows that whole compound statement in its own block (climbing through nested branches it also ends).
func (c *Ctx) stmtAfterEnclosing(fd *ast.FuncDecl, st ast.Stmt) ast.Stmt {
	var result ast.Stmt
	var walk func(list []ast.Stmt) bool
	walk = func(list []ast.Stmt) bool {
		for i, s := range list {
			if !(s.Pos() <= st.Pos() && st.End() <= s.End()) {
				continue
			}
			if s == st {
				return i == len(list)-1 // the caller's compound statement is the one to step over
			}
			// s is a compound statement around st
			endsBranch := false
			ast.Inspect(s, func(n ast.Node) bool {
				var inner []ast.Stmt
				switch b := n.(type) {
				case *ast.BlockStmt:
					inner = b.List
				case *ast.CaseClause:
					inner = b.Body
				default:
					return true
				}
				if n == ast.Node(s) || len(inner) == 0 || !(inner[0].Pos() <= st.Pos() && st.End() <= inner[len(inner)-1].End()) {
					return true
				}
				if walk(inner) {
					endsBranch = true
				}
				return false
			})
			switch s.(type) {
			case *ast.IfStmt, *ast.SwitchStmt, *ast.TypeSwitchStmt, *ast.BlockStmt:
				if endsBranch {
					if i+1 < len(list) {
						if result == nil {
							result = list[i+1]
						}
						return false
					}
					return true
				}
			}
			return false
		}
		return false
	}
	walk(fd.Body.List)
	return result
}

func init() {
	registerRule("supplied-cache-kept", 1, "the cache a caller supplies is the cache the expansion runs with, whatever its implementation: only a nil cache is replaced by the default one", ruleSuppliedCacheKept)
	registerRule("store-outside-nil-guard", 3, "a decoder that allocates a map on first use stores the element outside the `map == nil` branch: inside it, only the first element is kept", ruleStoreOutsideNilGuard)
}

// ruleSuppliedCacheKept (C18): on the effect normal form of the cache defaulter (found by role: ResolutionCache ->
// ResolutionCache), every path on which the parameter is known to be non-nil returns that very parameter, and no
// path decides on its dynamic type.
func ruleSuppliedCacheKept(c *Ctx) {
	const rule = "supplied-cache-kept"
	f := c.cacheDefaulter()
	fd := c.decl(f)
	if fd == nil || fd.Body == nil {
		c.undecided(rule, "cache-defaulter", token.NoPos, "cache defaulter not found by role")
		return
	}
	fn := c.funcName(fd)
	c.saw(fn)
	param := c.paramObj(fd, 0)
	paths, unsup := c.simulate(fd, func(g *types.Func) bool { return false })
	if unsup != "" || param == nil {
		c.undecided(rule, fn, fd.Pos(), "outside the fragment the effect normal form supports: "+unsup)
		return
	}
	ok, why := true, ""
	kept := false
	for _, p := range paths {
		nonNil, typed := false, false
		for _, cd := range p.conds {
			if b, isB := cd.v.(svBin); isB && b.op == token.NEQ && !cd.neg {
				if q, isP := b.x.(svPath); isP && q.root == param && len(q.steps) == 0 {
					if _, isNil := b.y.(svNil); isNil {
						nonNil = true
					}
				}
			}
			if _, isOpaque := cd.v.(svOpaque); isOpaque {
				typed = true
			}
		}
		returnsParam := len(p.rets) == 1 && svEqual(p.rets[0], svPath{root: param})
		if returnsParam {
			kept = true
		}
		if (nonNil || typed) && !returnsParam && ok {
			ok = false
			why = "a cache supplied by the caller is replaced by the default one on a path where it is not nil (for instance because it is not of the built-in type): documents the caller pre-loaded are fetched again, and results depend on which cache implementation was passed"
		}
	}
	if !kept && ok {
		ok, why = false, "the cache defaulter never hands back the cache it was given"
	}
	c.ob(rule, fn, fd.Pos(), ok, why)
}

// ruleStoreOutsideNilGuard (C01/C07): in every function reachable from a decoder, an element store m[k] = v is
// not control-dependent on m == nil for that same m.
func ruleStoreOutsideNilGuard(c *Ctx) {
	const rule = "store-outside-nil-guard"
	for _, fd := range c.reachableFrom("UnmarshalJSON", "GobDecode", "fromMap") {
		fn := c.funcName(fd)
		ord := 0
		ast.Inspect(fd.Body, func(n ast.Node) bool {
			as, ok := n.(*ast.AssignStmt)
			if !ok {
				return true
			}
			for _, l := range as.Lhs {
				ix, isIx := unparen(l).(*ast.IndexExpr)
				if !isIx {
					continue
				}
				if _, isMap := c.typeOf(ix.X).Underlying().(*types.Map); !isMap {
					continue
				}
				// only stores under a decoded (non-constant) key: filling a map member by member
				if tv, isC := c.Info.Types[ix.Index]; isC && tv.Value != nil {
					continue
				}
				ord++
				c.saw(fn)
				base := exprString(unparen(ix.X))
				bad := false
				for _, cl := range c.literalsAt(fd, as) {
					be, isB := unparen(cl.e).(*ast.BinaryExpr)
					if !isB || !(be.Op == token.EQL && !cl.neg || be.Op == token.NEQ && cl.neg) {
						continue
					}
					if isNilIdent(c, be.Y) && exprString(unparen(be.X)) == base || isNilIdent(c, be.X) && exprString(unparen(be.Y)) == base {
						bad = true
					}
				}
				c.ob(rule, fmt.Sprintf("%s:%s#%d", fn, base, ord), as.Pos(), !bad,
					"the element is stored only on the path where "+base+" was still nil: once the map exists, further members are silently dropped")
			}
			return true
		})
	}
}

func init() {
	registerRule("decode-into-kept", 3, "a decoder does not decode into a field of its receiver and then overwrite the whole receiver: what was decoded is thrown away", ruleDecodeIntoKept)
	registerRule("copy-has-room", 1, "copy is not given a destination made with length zero (it copies min(len(dst), len(src)) elements, that is none)", ruleCopyHasRoom)
	registerRule("entry-params-used", 10, "every exported Expand*/Resolve* entry point uses each of its parameters (an options or root argument that is dropped means another entry point's defaults are silently used)", ruleEntryParamsUsed)
	registerRule("loaded-doc-any-json", 1, "a loaded document is decoded into an interface{}: any JSON value (array, scalar, null) is a document a pointer can designate", ruleLoadedDocAnyJSON)
}

// ruleDecodeIntoKept (C01): in a method reachable from UnmarshalJSON, a call that is handed the address of a field
// of the receiver (json.Unmarshal(data, &s.F)) is not followed by an unconditional `*s = other`.
func ruleDecodeIntoKept(c *Ctx) {
	const rule = "decode-into-kept"
	for _, fd := range c.reachableFrom("UnmarshalJSON", "GobDecode") {
		recv := c.recvObj(fd)
		if recv == nil {
			continue
		}
		fn := c.funcName(fd)
		ord := 0
		ast.Inspect(fd.Body, func(n ast.Node) bool {
			call, ok := n.(*ast.CallExpr)
			if !ok {
				return true
			}
			for _, a := range call.Args {
				u, isAddr := unparen(a).(*ast.UnaryExpr)
				if !isAddr || u.Op != token.AND {
					continue
				}
				p, okp := c.apath(u.X)
				if !okp || p.Root != recv || len(p.Steps) == 0 {
					continue
				}
				ord++
				c.saw(fn)
				// a later whole-receiver overwrite in the same statement list or an enclosing one
				lost := false
				ast.Inspect(fd.Body, func(m ast.Node) bool {
					as, isA := m.(*ast.AssignStmt)
					if !isA || as.Pos() < call.End() || len(as.Lhs) != 1 {
						return true
					}
					st, isStar := unparen(as.Lhs[0]).(*ast.StarExpr)
					if !isStar {
						return true
					}
					if id, isId := unparen(st.X).(*ast.Ident); isId && c.objOf(id) == recv {
						// unless what is assigned was built from the receiver after the decode (s.F read in between)
						readBack := false
						ast.Inspect(fd.Body, func(r ast.Node) bool {
							if e, isE := r.(ast.Expr); isE && e.Pos() > call.End() && e.End() < as.Pos() {
								if q, okq := c.apath(e); okq && q.Root == recv && len(q.Steps) > 0 && q.Steps[0] == p.Steps[0] {
									readBack = true
								}
							}
							return true
						})
						if !readBack {
							lost = true
						}
					}
					return true
				})
				c.ob(rule, fmt.Sprintf("%s:&%s#%d", fn, exprString(u.X), ord), call.Pos(), !lost,
					"the input is decoded into "+exprString(u.X)+" and the whole receiver is then overwritten with another value: the member just decoded is lost")
			}
			return true
		})
	}
}

// ruleCopyHasRoom (C14 and the codecs in general): copy(dst, src) where dst is a local made with the constant length 0.
func ruleCopyHasRoom(c *Ctx) {
	const rule = "copy-has-room"
	n := 0
	for _, fd := range c.allFuncDecls() {
		if fd.Body == nil {
			continue
		}
		fn := c.funcName(fd)
		defs := c.localDefs(fd)
		ast.Inspect(fd.Body, func(nd ast.Node) bool {
			call, ok := nd.(*ast.CallExpr)
			if !ok || !c.isBuiltin(call, "copy") || len(call.Args) != 2 {
				return true
			}
			n++
			c.saw(fn)
			bad := false
			if id, isId := unparen(call.Args[0]).(*ast.Ident); isId {
				for _, d := range defs[c.objOf(id)] {
					if mk, isMk := unparen(d).(*ast.CallExpr); isMk && c.isBuiltin(mk, "make") && len(mk.Args) >= 2 {
						if tv, has := c.Info.Types[mk.Args[1]]; has && tv.Value != nil && tv.Value.String() == "0" {
							bad = true
						}
					}
				}
			}
			c.ob(rule, fmt.Sprintf("%s:copy(%s)#%d", fn, exprString(call.Args[0]), n), call.Pos(), !bad,
				"the destination of copy was made with length 0 (only its capacity is set): nothing is copied and the data is lost")
			return true
		})
	}
	if n == 0 {
		c.ob(rule, "no-copy-calls", token.NoPos, true, "").Trivial = true
	}
}

// ruleEntryParamsUsed (C05/C10): exported package functions named Expand* / Resolve* mention each named parameter.
func ruleEntryParamsUsed(c *Ctx) {
	const rule = "entry-params-used"
	for _, f := range c.entryPoints() {
		fd := c.decl(f)
		if fd == nil || fd.Body == nil {
			continue
		}
		fn := c.funcName(fd)
		c.saw(fn)
		for i := 0; ; i++ {
			p := c.paramObj(fd, i)
			if p == nil {
				break
			}
			if p.Name() == "_" || p.Name() == "" {
				continue
			}
			used := false
			ast.Inspect(fd.Body, func(n ast.Node) bool {
				if id, ok := n.(*ast.Ident); ok && c.objOf(id) == p {
					used = true
				}
				return true
			})
			c.ob(rule, fn+":"+p.Name(), fd.Pos(), used,
				"the entry point never uses its parameter "+p.Name()+": the caller's "+p.Name()+" is silently replaced by a default (a sibling entry point taking the same arguments behaves differently)")
		}
	}
}

// ruleLoadedDocAnyJSON (C18/C05): in the function that calls the document loader and in the package functions it
// calls, the value json.Unmarshal decodes the loaded bytes into is an interface{}.
func ruleLoadedDocAnyJSON(c *Ctx) {
	const rule = "loaded-doc-any-json"
	var home *types.Func
	for _, fd := range c.allFuncDecls() {
		if fd.Body == nil {
			continue
		}
		ast.Inspect(fd.Body, func(n ast.Node) bool {
			if call, ok := n.(*ast.CallExpr); ok && c.isDocLoaderCall(call) {
				home, _ = c.Info.Defs[fd.Name].(*types.Func)
			}
			return true
		})
	}
	if home == nil {
		c.undecided(rule, "loader-call", token.NoPos, "the function calling the document loader was not found")
		return
	}
	// the method through which documents are requested (it consults the cache), and what it calls
	set := map[*types.Func]bool{home: true}
	for _, g := range c.pkgFuncs() {
		for _, h := range c.staticCallees(g) {
			if h == home && g.Type().(*types.Signature).Recv() != nil {
				set[g] = true
			}
		}
	}
	n := 0
	for f := range set {
		fd := c.decl(f)
		if fd == nil || fd.Body == nil {
			continue
		}
		fn := c.funcName(fd)
		ast.Inspect(fd.Body, func(nd ast.Node) bool {
			call, ok := nd.(*ast.CallExpr)
			if !ok || !c.isPkgFunc(call, "encoding/json", "Unmarshal") || len(call.Args) != 2 {
				return true
			}
			u, isAddr := unparen(call.Args[1]).(*ast.UnaryExpr)
			if !isAddr || u.Op != token.AND {
				return true
			}
			n++
			c.saw(fn)
			t := c.typeOf(u.X)
			it, isIface := t.Underlying().(*types.Interface)
			c.ob(rule, fmt.Sprintf("%s:decode-target#%d", fn, n), call.Pos(), isIface && it.Empty(),
				"the loaded document is decoded into a "+t.String()+": a document whose top-level value is an array, a scalar or null fails to load (while the same document pre-loaded in a cache resolves), so results depend on the cache")
			return true
		})
	}
	if n == 0 {
		c.ob(rule, "decode-site", token.NoPos, false, "no json.Unmarshal of the loaded bytes found next to the document loader call")
	}
}

func init() {
	registerRule("designated-before-decoded", 3, "on every path of the reference resolver the value located for a reference is tested for designating nothing before it is decoded into the target", ruleDesignatedBeforeDecoded)
}

// ruleDesignatedBeforeDecoded (C05/C08): on the effect normal form of the reference resolver (helpers inlined),
// every call of swag.DynamicJSONToStruct is made with a value for which the package's "designates nothing" test
// (a bool function over an interface{} that the resolver consults) is known to have answered false on that path.
// A path that reaches the decoding around the test turns "designates nothing" into a zero value with a nil error.
func ruleDesignatedBeforeDecoded(c *Ctx) {
	const rule = "designated-before-decoded"
	fam := c.family()
	if !fam.ok() || fam.resolveRef == nil {
		c.undecided(rule, "family", token.NoPos, "reference resolver not found by role")
		return
	}
	fd := c.decl(fam.resolveRef)
	fn := c.funcName(fd)
	c.saw(fn)
	isNothingTest := func(f *types.Func) bool {
		if f == nil || f.Pkg() != c.Types {
			return false
		}
		sig := f.Type().(*types.Signature)
		if sig.Recv() != nil || sig.Params().Len() != 1 || sig.Results().Len() != 1 {
			return false
		}
		it, isIface := sig.Params().At(0).Type().Underlying().(*types.Interface)
		b, isBool := sig.Results().At(0).Type().Underlying().(*types.Basic)
		return isIface && it.Empty() && isBool && b.Kind() == types.Bool
	}
	isDecode := func(f *types.Func) bool {
		return f != nil && f.Pkg() != nil && f.Pkg().Path() == "github.com/go-openapi/swag" && f.Name() == "DynamicJSONToStruct"
	}
	var loadFn *types.Func
	for _, g := range c.allFuncDecls() {
		if g.Body == nil {
			continue
		}
		ast.Inspect(g.Body, func(n ast.Node) bool {
			if call, ok := n.(*ast.CallExpr); ok && c.isDocLoaderCall(call) {
				loadFn, _ = c.Info.Defs[g.Name].(*types.Func)
			}
			return true
		})
	}
	paths, unsup := c.simulate(fd, func(f *types.Func) bool {
		if isNothingTest(f) || f == loadFn {
			return false
		}
		// what lies between the resolver and the decoding
		return c.reaches(f, func(h *types.Func) bool { return isDecode(h) || isNothingTest(h) })
	})
	if unsup != "" {
		c.undecided(rule, fn, fd.Pos(), "outside the fragment the effect normal form supports: "+unsup)
		return
	}
	ndec, ok, why := 0, true, ""
	for _, p := range paths {
		for _, e := range p.effs {
			if e.kind != "call" || len(e.call.args) == 0 {
				continue
			}
			f, _ := e.call.callee.(*types.Func)
			if !isDecode(f) {
				continue
			}
			ndec++
			v := e.call.args[0]
			tested := false
			// a value of struct type (a schema taken out of a map of schemas under its comma-ok) always designates
			// something: only nil-able values need the test
			if sc, isCall := v.(svCall); isCall {
				if g, isF := sc.callee.(*types.Func); isF {
					if res := g.Type().(*types.Signature).Results(); sc.idx < res.Len() {
						if _, isStruct := res.At(sc.idx).Type().Underlying().(*types.Struct); isStruct {
							tested = true
						}
					}
				}
			}
			if ix, isIx := v.(svIndex); isIx {
				if mp, isP := ix.x.(svPath); isP {
					if t := c.simTypeAtPath(mp); t != nil {
						if mt, isMap := t.Underlying().(*types.Map); isMap {
							if _, isStruct := mt.Elem().Underlying().(*types.Struct); isStruct {
								tested = true
							}
						}
					}
				}
			}
			for _, cd := range p.conds {
				sc, isCall := cd.v.(svCall)
				if !isCall || !cd.neg || len(sc.args) != 1 {
					continue
				}
				if g, _ := sc.callee.(*types.Func); isNothingTest(g) && svEqual(sc.args[0], v) {
					tested = true
				}
			}
			if !tested && ok {
				ok = false
				why = "on some path the located value " + svString(v) + " is decoded into the target without the designates-nothing test having answered false for it: a reference that designates nothing (the empty reference to a null document, a nil typed root) resolves to a zero value with a nil error"
			}
		}
	}
	if ndec == 0 {
		c.ob(rule, fn+":decodes", fd.Pos(), false, "the reference resolver never reaches swag.DynamicJSONToStruct")
		return
	}
	c.ob(rule, fn+":every-decode-tested", fd.Pos(), ok, why)
	// what is decoded comes from the loader's own root only where the reference is known to be local (fragment
	// only, or the root reference): a fast path that answers "#/definitions/x" of the root for
	// "other.json#/definitions/x" ignores the document the reference names
	recv := c.recvObj(fd)
	var refParam types.Object
	for i := 0; ; i++ {
		p := c.paramObj(fd, i)
		if p == nil {
			break
		}
		if isNamed(p.Type(), c.Types, "Ref") {
			refParam = p
		}
	}
	if recv == nil || refParam == nil {
		return
	}
	localOK, localWhy := true, ""
	mentionsRoot := func(v sval) bool {
		found := false
		svWalk(v, func(x sval) {
			if q, isP := x.(svPath); isP && q.root == recv {
				for _, stp := range q.steps {
					if stp == "root" {
						found = true
					}
				}
			}
		})
		return found
	}
	var localTest func(v sval) bool
	localTest = func(v sval) bool {
		switch x := v.(type) {
		case svBin:
			if x.op == token.LAND || x.op == token.LOR {
				return localTest(x.x) || localTest(x.y)
			}
		case svPath:
			return x.root == refParam && len(x.steps) > 0 && x.steps[len(x.steps)-1] == "HasFragmentOnly"
		case svCall:
			if g, isF := x.callee.(*types.Func); isF && g.Name() == "IsRoot" && x.recv != nil {
				switch r := x.recv.(type) {
				case svPath:
					return r.root == refParam
				case svAddr:
					return r.p.root == refParam
				}
			}
		}
		return false
	}
	for _, p := range paths {
		for _, e := range p.effs {
			if e.kind != "call" || len(e.call.args) == 0 || !localOK {
				continue
			}
			f, _ := e.call.callee.(*types.Func)
			if !isDecode(f) || !mentionsRoot(e.call.args[0]) {
				continue
			}
			known := false
			n := e.ncond
			if n > len(p.conds) {
				n = len(p.conds)
			}
			for _, cd := range p.conds[:n] {
				if !cd.neg && !cd.loop && localTest(cd.v) {
					known = true
				}
			}
			if !known {
				localOK = false
				localWhy = "on some path " + svString(e.call.args[0]) + ", taken from the loader's own root, is decoded into the target although the reference is not known to be local (fragment only / the root reference): the document the reference names is ignored"
			}
		}
	}
	c.ob(rule, fn+":root-only-for-local-refs", fd.Pos(), localOK, localWhy)
	// a document kept in the context that all the loaders of one expansion share answers a reference only where
	// it is this loader's own root: the loader of another document must not be served the root's members
	sharedOK, sharedWhy := true, ""
	ctxDoc := func(v sval) (svPath, bool) {
		var out svPath
		found := false
		svWalk(v, func(x sval) {
			q, isP := x.(svPath)
			if !isP || q.root != recv || len(q.steps) < 2 || q.steps[0] != "context" {
				return
			}
			t := c.simTypeAtPath(svPath{root: recv, steps: q.steps[:2]})
			if t == nil {
				return
			}
			if it, isI := t.Underlying().(*types.Interface); isI && it.Empty() || isNamed(t, c.Types, "Swagger") {
				out, found = svPath{root: recv, steps: q.steps[:2]}, true
			}
		})
		return out, found
	}
	for _, p := range paths {
		for _, e := range p.effs {
			if e.kind != "call" || len(e.call.args) == 0 || !sharedOK {
				continue
			}
			f, _ := e.call.callee.(*types.Func)
			if !isDecode(f) {
				continue
			}
			doc, has := ctxDoc(e.call.args[0])
			if !has {
				continue
			}
			own := false
			n := e.ncond
			if n > len(p.conds) {
				n = len(p.conds)
			}
			for _, cd := range p.conds[:n] {
				for _, atom := range flattenAnd(cd.v, cd.neg) {
					b, isB := atom.v.(svBin)
					if !isB || b.op != token.NEQ || !atom.neg {
						continue
					}
					for _, pr := range [][2]sval{{b.x, b.y}, {b.y, b.x}} {
						q, isP := pr[0].(svPath)
						if isP && q.root == recv && len(q.steps) == 1 && q.steps[0] == "root" && svEqual(pr[1], doc) {
							own = true
						}
					}
				}
			}
			if !own {
				sharedOK = false
				sharedWhy = "on some path a value taken from " + svString(doc) + ", which every loader of the expansion shares, is decoded into the target although this loader's own root is not known to be that document: a fragment-only $ref found in another document is answered with the root's member of the same name"
			}
		}
	}
	c.ob(rule, fn+":shared-document-only-for-its-loader", fd.Pos(), sharedOK, sharedWhy)
}

// flattenAnd splits a condition that holds (neg false) into the conjuncts that hold, following && and !.
type condAtom struct {
	v   sval
	neg bool
}

func flattenAnd(v sval, neg bool) []condAtom {
	switch x := v.(type) {
	case svNot:
		return flattenAnd(x.x, !neg)
	case svBin:
		if x.op == token.LAND && !neg {
			return append(flattenAnd(x.x, false), flattenAnd(x.y, false)...)
		}
		if x.op == token.LOR && neg {
			return append(flattenAnd(x.x, true), flattenAnd(x.y, true)...)
		}
	}
	return []condAtom{{v, neg}}
}
