package main

import (
	"fmt"
	"go/ast"
	"go/token"
	"go/types"
	"sort"
	"strings"
)

func init() {
	registerRule("entry-wiring", 22, "every exported entry point builds its loader, base path and root registration the way whole-spec expansion does", ruleEntryWiring)
	registerRule("opts-immutable", 11, "the caller's *ExpandOptions only ever flows into the cloner", ruleOptsImmutable)
	registerRule("resolve-pure", 9, "Resolve* entry points reach no expander and no chain dereference", ruleResolvePure)
	registerRule("root-readonly", 15, "root and cached documents are only read: located with a JSON pointer and copied out by a JSON round trip", ruleRootReadonly)
}

func (c *Ctx) roleFunc(pred func(sig *types.Signature) bool) *types.Func {
	var out *types.Func
	for _, f := range c.pkgFuncs() {
		sig := f.Type().(*types.Signature)
		if sig.Recv() == nil && pred(sig) {
			out = f
		}
	}
	return out
}

func (c *Ctx) optionsCloner() *types.Func {
	return c.roleFunc(func(sig *types.Signature) bool {
		return sig.Params().Len() == 1 && sig.Results().Len() == 1 && isNamed(sig.Params().At(0).Type(), c.Types, "ExpandOptions") && isNamed(sig.Results().At(0).Type(), c.Types, "ExpandOptions")
	})
}

func (c *Ctx) pseudoRootHelper() *types.Func {
	return c.roleFunc(func(sig *types.Signature) bool {
		return sig.Params().Len() == 2 && sig.Results().Len() == 1 && isStringType(sig.Results().At(0).Type()) && isNamed(sig.Params().At(1).Type(), c.Types, "ResolutionCache")
	})
}

func (c *Ctx) loaderFactory(fam *expFamily) *types.Func {
	return c.roleFunc(func(sig *types.Signature) bool {
		if sig.Results().Len() != 1 || !isNamed(sig.Results().At(0).Type(), c.Types, fam.loader.Obj().Name()) {
			return false
		}
		// (a helper that merely wraps the factory - loaderForBase(basePath) - is not the factory: the factory is
		// given the options and the cache)
		opts, cache := false, false
		for i := 0; i < sig.Params().Len(); i++ {
			if isNamed(sig.Params().At(i).Type(), c.Types, "ExpandOptions") {
				opts = true
			}
			if isNamed(sig.Params().At(i).Type(), c.Types, "ResolutionCache") {
				cache = true
			}
		}
		return opts && cache
	})
}

func (c *Ctx) cacheDefaulter() *types.Func {
	return c.roleFunc(func(sig *types.Signature) bool {
		return sig.Params().Len() == 1 && sig.Results().Len() == 1 && isNamed(sig.Params().At(0).Type(), c.Types, "ResolutionCache") && isNamed(sig.Results().At(0).Type(), c.Types, "ResolutionCache")
	})
}

func ruleEntryWiring(c *Ctx) {
	const rule = "entry-wiring"
	fam := c.family()
	if !fam.ok() {
		c.undecided(rule, "family", token.NoPos, "expander family not found by role")
		return
	}
	cloner, pseudo, factory, cacheDef := c.optionsCloner(), c.pseudoRootHelper(), c.loaderFactory(fam), c.cacheDefaulter()
	if cloner == nil || pseudo == nil || factory == nil || cacheDef == nil {
		c.undecided(rule, "helpers", token.NoPos, "options cloner / pseudo-root helper / loader factory / cache defaulter not found by role")
		return
	}
	// decided on the effect normal form of every exported entry point (helpers inlined down to the role functions);
	// the syntactic form below is only used when some entry point is outside the fragment the normaliser supports
	if nb := c.funcObj("normalizeBase"); nb != nil {
		roles := &entryRoles{fam: fam, cloner: cloner, pseudo: pseudo, factory: factory, cacheDef: cacheDef, nb: nb}
		type entryRes struct {
			f     *types.Func
			facts *entryFacts
		}
		var all []entryRes
		supported := true
		for _, f := range c.entryPoints() {
			facts, unsup := c.entryFactsBySim(roles, f)
			if unsup != "" {
				supported = false
				break
			}
			all = append(all, entryRes{f, facts})
		}
		if supported {
			for _, er := range all {
				if !er.facts.hasFactory {
					continue
				}
				fd := c.decl(er.f)
				fn := c.funcName(fd)
				c.saw(fn)
				c.ob(rule, fn+":fresh-context", fd.Pos(), er.facts.fresh == "", er.facts.fresh)
				c.ob(rule, fn+":options-cloned", fd.Pos(), er.facts.options == "", er.facts.options)
				c.ob(rule, fn+":base-is-options-base", fd.Pos(), er.facts.base == "", er.facts.base)
				if er.facts.hasPseudo {
					c.ob(rule, fn+":root-in-loader-cache", fd.Pos(), er.facts.rootCache == "", er.facts.rootCache)
					c.ob(rule, fn+":same-root", fd.Pos(), er.facts.sameRoot == "", er.facts.sameRoot)
				}
			}
			return
		}
	}
	isCallTo := func(e ast.Expr, f *types.Func) *ast.CallExpr {
		call, ok := unparen(e).(*ast.CallExpr)
		if !ok {
			return nil
		}
		if g, ok := c.callee(call).(*types.Func); ok && g == f {
			return call
		}
		return nil
	}
	entrySet := map[*types.Func]bool{}
	for _, f := range c.entryPoints() {
		entrySet[f] = true
	}
	var entries []*types.Func
	for _, f := range c.pkgFuncs() {
		sig := f.Type().(*types.Signature)
		if sig.Recv() != nil {
			continue // loader methods (transitiveResolver) are covered by loader-shares-state
		}
		if entrySet[f] {
			entries = append(entries, f)
			continue
		}
		for _, g := range c.staticCallees(f) {
			if g == factory {
				entries = append(entries, f)
			}
		}
	}
	type provider struct{ loaderIdx, baseIdx int }
	providers := map[*types.Func]provider{}
	for _, f := range entries {
		if f == nil || f == factory {
			continue
		}
		fd := c.decl(f)
		// only entry points that build a loader themselves
		var fcall *ast.CallExpr
		ast.Inspect(fd.Body, func(n ast.Node) bool {
			if call, ok := n.(*ast.CallExpr); ok {
				if g, ok := c.callee(call).(*types.Func); ok && g == factory {
					fcall = call
				}
			}
			return true
		})
		fn := c.funcName(fd)
		defs := c.localDefs(fd)
		if fcall == nil {
			// delegation to another entry point: ExpandSchema -> ExpandSchemaWithBasePath(schema, cache, opts)
			var pcall *ast.CallExpr
			ast.Inspect(fd.Body, func(n ast.Node) bool {
				if call := isCallToNode(c, n, pseudo); call != nil {
					pcall = call
				}
				return true
			})
			if pcall == nil {
				continue
			}
			c.saw(fn)
			// the cache given to the pseudo-root helper is the cache handed on
			ok := false
			cid, _ := unparen(pcall.Args[1]).(*ast.Ident)
			ast.Inspect(fd.Body, func(n ast.Node) bool {
				call, isC := n.(*ast.CallExpr)
				if !isC || call == pcall {
					return true
				}
				if g, isF := c.callee(call).(*types.Func); isF && g.Exported() && g.Pkg() == c.Types {
					for _, a := range call.Args {
						if id, isId := unparen(a).(*ast.Ident); isId && cid != nil && c.objOf(id) == c.objOf(cid) {
							ok = true
						}
					}
				}
				return true
			})
			c.ob(rule, fn+":root-in-loader-cache", pcall.Pos(), ok, "the root is registered in one cache and the expansion runs with another: fragment refs into the root cannot be resolved (or resolve against a stale root)")
			continue
		}
		c.saw(fn)
		if len(fcall.Args) != 4 {
			c.undecided(rule, fn, fcall.Pos(), "unexpected loader factory arity")
			continue
		}
		// fresh context
		c.ob(rule, fn+":fresh-context", fcall.Pos(), isNilIdent(c, fcall.Args[3]), "an entry point must start with a fresh resolver context (nil), not a shared one")
		// options: cloned, or a literal whose RelativeBase is the pseudo root
		optID, _ := unparen(fcall.Args[1]).(*ast.Ident)
		optOK, why := false, "options handed to the loader are neither the clone of the caller's nor a literal based on the pseudo root"
		var pseudoCall *ast.CallExpr
		if optID != nil {
			for _, d := range defs[c.objOf(optID)] {
				if isCallTo(d, cloner) != nil {
					optOK = true
				}
				e := unparen(d)
				if u, ok := e.(*ast.UnaryExpr); ok && u.Op == token.AND {
					e = unparen(u.X)
				}
				if lit, ok := e.(*ast.CompositeLit); ok {
					for _, el := range lit.Elts {
						if kv, ok := el.(*ast.KeyValueExpr); ok {
							if id, ok := kv.Key.(*ast.Ident); ok && id.Name == "RelativeBase" {
								if pc := isCallTo(kv.Value, pseudo); pc != nil {
									optOK, pseudoCall = true, pc
								}
							}
						}
					}
				}
			}
		}
		c.ob(rule, fn+":options-cloned", fcall.Pos(), optOK, why)
		// base path handed to the family = RelativeBase of those very options
		baseOK := false
		nfam := 0
		for _, call := range c.familyCalls(fam, fd) {
			nfam++
			b := c.baseArgOf(call)
			if b == nil {
				continue
			}
			e := unparen(b)
			if id, ok := e.(*ast.Ident); ok {
				ds := defs[c.objOf(id)]
				if len(ds) == 1 {
					e = unparen(ds[0])
					if e.Pos() < fcall.Pos() {
						// read before the loader factory substituted the pseudo root for an empty base
						baseOK = false
						break
					}
				}
			}
			if p, ok := c.apath(e); ok && optID != nil && p.Root == c.objOf(optID) && lastStep(p) == "RelativeBase" {
				baseOK = true
			} else {
				baseOK = false
				break
			}
		}
		if nfam == 0 {
			// a helper that builds the loader and hands it back together with the base path
			sig := f.Type().(*types.Signature)
			li, bi := -1, -1
			for i := 0; i < sig.Results().Len(); i++ {
				if isNamed(sig.Results().At(i).Type(), c.Types, fam.loader.Obj().Name()) {
					li = i
				}
				if isStringType(sig.Results().At(i).Type()) {
					bi = i
				}
			}
			if li >= 0 && bi >= 0 {
				okRet, nret := true, 0
				ast.Inspect(fd.Body, func(n ast.Node) bool {
					rs, ok := n.(*ast.ReturnStmt)
					if !ok || len(rs.Results) != sig.Results().Len() {
						return true
					}
					nret++
					p, ok := c.apath(rs.Results[bi])
					if !ok || optID == nil || p.Root != c.objOf(optID) || lastStep(p) != "RelativeBase" || rs.Pos() < fcall.Pos() {
						okRet = false
					}
					return true
				})
				c.ob(rule, fn+":base-is-options-base", fcall.Pos(), okRet && nret > 0, "the base path handed back with the loader must be the RelativeBase of the options the loader was built with, read after the loader factory ran")
				providers[f] = provider{li, bi}
			} else if packedOK, packed := c.loaderPackedWithBase(fam, fd, fcall, optID); packed {
				// loader and base path packed together into a parameter object whose methods do the expansion
				c.ob(rule, fn+":base-is-options-base", fcall.Pos(), packedOK, "the base path packed with the loader must be the RelativeBase of the options the loader was built with, read after the loader factory ran")
			} else {
				c.ob(rule, fn+":base-is-options-base", fcall.Pos(), false, "a loader is built but neither used for an expansion here nor handed back with its base path")
			}
		} else {
			c.ob(rule, fn+":base-is-options-base", fcall.Pos(), baseOK && nfam > 0, "the base path given to the expander must be the RelativeBase of the options the loader was built with")
		}
		// the loader handed to the family is the one just built
		if pseudoCall != nil {
			// root registered in the cache the loader receives
			pc, _ := unparen(pseudoCall.Args[1]).(*ast.Ident)
			lc, _ := unparen(fcall.Args[2]).(*ast.Ident)
			same := pc != nil && lc != nil && c.objOf(pc) == c.objOf(lc)
			if same {
				same = false
				for _, d := range defs[c.objOf(pc)] {
					if isCallTo(d, cacheDef) != nil {
						same = true
					}
				}
			}
			c.ob(rule, fn+":root-in-loader-cache", pseudoCall.Pos(), same, "the root is registered in one cache and the loader uses another: fragment refs into the root cannot be resolved")
			// the same root goes to both
			r1, _ := unparen(pseudoCall.Args[0]).(*ast.Ident)
			r2, _ := unparen(fcall.Args[0]).(*ast.Ident)
			c.ob(rule, fn+":same-root", pseudoCall.Pos(), r1 != nil && r2 != nil && c.objOf(r1) == c.objOf(r2), "the root registered under the pseudo location and the root given to the loader differ")
		}
	}
	pm := map[*types.Func][2]int{}
	for g, p := range providers {
		pm[g] = [2]int{p.loaderIdx, p.baseIdx}
	}
	if len(pm) > 0 {
		for f := range entrySet {
			c.entryUsesProvider(rule, fam, f, pm)
		}
	}
}

// entryUsesProvider checks an entry point that obtains (loader, base) from a provider helper.
func (c *Ctx) entryUsesProvider(rule string, fam *expFamily, f *types.Func, providers map[*types.Func][2]int) {
	fd := c.decl(f)
	if fd == nil || fd.Body == nil {
		return
	}
	var lv, bv types.Object
	var pcall *ast.CallExpr
	ast.Inspect(fd.Body, func(n ast.Node) bool {
		as, ok := n.(*ast.AssignStmt)
		if !ok || len(as.Rhs) != 1 {
			return true
		}
		call, ok := unparen(as.Rhs[0]).(*ast.CallExpr)
		if !ok {
			return true
		}
		g, ok := c.callee(call).(*types.Func)
		if !ok {
			return true
		}
		idx, isP := providers[g]
		if !isP || len(as.Lhs) <= idx[0] || len(as.Lhs) <= idx[1] {
			return true
		}
		pcall = call
		if id, ok := as.Lhs[idx[0]].(*ast.Ident); ok {
			lv = c.objOf(id)
		}
		if id, ok := as.Lhs[idx[1]].(*ast.Ident); ok {
			bv = c.objOf(id)
		}
		return true
	})
	if pcall == nil {
		return
	}
	fn := c.funcName(fd)
	c.saw(fn)
	ok, n := true, 0
	for _, call := range c.familyCalls(fam, fd) {
		n++
		b, _ := unparen(c.baseArgOf(call)).(*ast.Ident)
		l, _ := unparen(c.loaderArgOf(fam, call)).(*ast.Ident)
		if b == nil || l == nil || c.objOf(b) != bv || c.objOf(l) != lv {
			ok = false
		}
	}
	c.ob(rule, fn+":base-is-options-base", pcall.Pos(), ok && n > 0, "the expansion must run with the loader and the base path handed back together by the loader-building helper")
}

func isCallToNode(c *Ctx, n ast.Node, f *types.Func) *ast.CallExpr {
	call, ok := n.(*ast.CallExpr)
	if !ok {
		return nil
	}
	if g, ok := c.callee(call).(*types.Func); ok && g == f {
		return call
	}
	return nil
}

func ruleOptsImmutable(c *Ctx) {
	const rule = "opts-immutable"
	cloner := c.optionsCloner()
	if cloner == nil {
		c.undecided(rule, "cloner", token.NoPos, "options cloner not found by role")
		return
	}
	// the cloner never writes through its parameter
	cfd := c.decl(cloner)
	c.saw(c.funcName(cfd))
	p := c.paramObj(cfd, 0)
	var simFacts *clonerFacts
	if nb := c.funcObj("normalizeBase"); nb != nil {
		simFacts, _ = c.clonerFactsBySim(cloner, nb)
	}
	if simFacts != nil {
		// decided on the effect normal form of the cloner (a method or helper doing the copy is inlined)
		c.ob(rule, c.funcName(cfd)+":no-write-through-param", cfd.Pos(), simFacts.noWrite == "", simFacts.noWrite)
		c.ob(rule, c.funcName(cfd)+":copies-by-value", cfd.Pos(), simFacts.byValue == "", simFacts.byValue)
		c.ob(rule, c.funcName(cfd)+":returns-fresh", cfd.Pos(), simFacts.fresh == "", simFacts.fresh)
	}
	writes := 0
	ast.Inspect(cfd.Body, func(n ast.Node) bool {
		if as, ok := n.(*ast.AssignStmt); ok {
			for _, l := range as.Lhs {
				if ap, ok := c.apath(l); ok && ap.Root == p && (len(ap.Steps) > 0 || isStar(l)) {
					writes++
				}
			}
		}
		return true
	})
	if simFacts == nil {
		c.ob(rule, c.funcName(cfd)+":no-write-through-param", cfd.Pos(), writes == 0, "the options cloner writes through the caller's pointer")
	}
	// the clone is a by-value copy of *param
	copied := false
	ast.Inspect(cfd.Body, func(n ast.Node) bool {
		if as, ok := n.(*ast.AssignStmt); ok && len(as.Lhs) == 1 && len(as.Rhs) == 1 {
			if st, ok := unparen(as.Rhs[0]).(*ast.StarExpr); ok {
				if id, ok := unparen(st.X).(*ast.Ident); ok && c.objOf(id) == p {
					if _, isPtr := c.typeOf(as.Lhs[0]).(*types.Pointer); !isPtr {
						copied = true
					}
				}
			}
		}
		return true
	})
	if simFacts == nil {
		c.ob(rule, c.funcName(cfd)+":copies-by-value", cfd.Pos(), copied, "the clone must be a by-value copy of the caller's struct")
	}
	retFresh := true
	ast.Inspect(cfd.Body, func(n ast.Node) bool {
		rs, ok := n.(*ast.ReturnStmt)
		if !ok || len(rs.Results) != 1 {
			return true
		}
		e := unparen(rs.Results[0])
		if u, ok := e.(*ast.UnaryExpr); ok && u.Op == token.AND {
			if id, ok := unparen(u.X).(*ast.Ident); ok && c.objOf(id) != p {
				if _, isPtr := c.objOf(id).Type().(*types.Pointer); !isPtr {
					return true
				}
			}
			if _, ok := unparen(u.X).(*ast.CompositeLit); ok {
				return true
			}
		}
		retFresh = false
		return true
	})
	if simFacts == nil {
		c.ob(rule, c.funcName(cfd)+":returns-fresh", cfd.Pos(), retFresh, "the cloner hands back the caller's own pointer on some path: the loader factory and the transitive resolver then write the pseudo-root / visited-document location into the caller's struct")
	}
	// every function with an *ExpandOptions parameter that is exported (or is the context constructor): parameter only flows to the cloner, a nil test, or another exported function's options parameter
	// The functions that can see a caller's own pointer: the exported ones, and (transitively) every package
	// function one of them hands its un-cloned parameter to.
	facing := map[*types.Func]bool{}
	var work []*types.Func
	for _, f := range c.pkgFuncs() {
		if f != cloner && (f.Exported() || f.Name() == "resolveAnyWithBase" || f.Name() == "newResolverContext") {
			facing[f] = true
			work = append(work, f)
		}
	}
	// takesOptsAt: the call passes the identifier in a position whose parameter is an *ExpandOptions
	takesOptsAt := func(g *types.Func, call *ast.CallExpr, id *ast.Ident) bool {
		gs := g.Type().(*types.Signature)
		for k, a := range call.Args {
			if unparen(a) == ast.Expr(id) && k < gs.Params().Len() {
				if _, isPtr := gs.Params().At(k).Type().(*types.Pointer); isPtr && isNamed(gs.Params().At(k).Type(), c.Types, "ExpandOptions") {
					return true
				}
			}
		}
		return false
	}
	for len(work) > 0 {
		f := work[0]
		work = work[1:]
		sig := f.Type().(*types.Signature)
		fd := c.decl(f)
		if fd == nil || fd.Body == nil {
			continue
		}
		for i := 0; i < sig.Params().Len(); i++ {
			if !isNamed(sig.Params().At(i).Type(), c.Types, "ExpandOptions") {
				continue
			}
			if _, isPtr := sig.Params().At(i).Type().(*types.Pointer); !isPtr {
				continue
			}
			po := c.paramObj(fd, i)
			if po == nil {
				continue
			}
			c.saw(c.funcName(fd))
			var bad []string
			parents := map[ast.Node]ast.Node{}
			var stack []ast.Node
			ast.Inspect(fd.Body, func(n ast.Node) bool {
				if n == nil {
					stack = stack[:len(stack)-1]
					return true
				}
				if len(stack) > 0 {
					parents[n] = stack[len(stack)-1]
				}
				stack = append(stack, n)
				return true
			})
			// `options = optionsOrDefault(options)` rebinds the local name to the clone: later uses are uses of the clone
			rebindPos := token.Pos(0)
			for _, top := range fd.Body.List {
				as, ok := top.(*ast.AssignStmt)
				if !ok || len(as.Lhs) != 1 || len(as.Rhs) != 1 || rebindPos != 0 {
					continue
				}
				if id, ok := as.Lhs[0].(*ast.Ident); ok && c.objOf(id) == po {
					if call, ok := unparen(as.Rhs[0]).(*ast.CallExpr); ok {
						if g, ok := c.callee(call).(*types.Func); ok && g == cloner {
							rebindPos = as.End()
						}
					}
				}
			}
			ast.Inspect(fd.Body, func(n ast.Node) bool {
				id, ok := n.(*ast.Ident)
				if !ok || c.objOf(id) != po || rebindPos != 0 && id.Pos() >= rebindPos {
					return true
				}
				switch par := parents[id].(type) {
				case *ast.CallExpr:
					if g, ok := c.callee(par).(*types.Func); ok {
						if g == cloner {
							return true
						}
						if g.Pkg() == c.Types && c.decl(g) != nil && takesOptsAt(g, par, id) {
							if !facing[g] {
								facing[g] = true
								work = append(work, g)
							}
							return true // checked there
						}
					}
					bad = append(bad, "passed to "+exprString(par.Fun))
				case *ast.BinaryExpr:
					if isNilIdent(c, par.X) || isNilIdent(c, par.Y) {
						return true
					}
					bad = append(bad, "used in "+exprString(par))
				case *ast.SelectorExpr:
					// a field of the caller's struct that is only read (not assigned, not address-taken, no method
					// called on the pointer): nothing becomes visible to the caller
					if par.X == ast.Expr(id) {
						if sel := c.Info.Selections[par]; sel != nil && sel.Kind() == types.FieldVal {
							readOnly := true
							switch gp := parents[par].(type) {
							case *ast.AssignStmt:
								for _, l := range gp.Lhs {
									if l == ast.Expr(par) {
										readOnly = false
									}
								}
							case *ast.UnaryExpr:
								readOnly = gp.Op != token.AND
							case *ast.IncDecStmt:
								readOnly = false
							case *ast.SelectorExpr, *ast.IndexExpr:
								// something below the field: only a plain value read is accepted
								readOnly = false
							}
							if readOnly {
								return true
							}
						}
					}
					bad = append(bad, fmt.Sprintf("used in %T", par))
				case *ast.KeyValueExpr:
					// packed into a parameter object of the package: fine if every reader of that field hands it to
					// the cloner (or nil-tests it) and nobody writes through it
					if lit, ok := parents[par].(*ast.CompositeLit); ok && par.Value == ast.Expr(id) {
						if kid, ok := par.Key.(*ast.Ident); ok {
							if st, ok := derefType(c.typeOf(lit)).Underlying().(*types.Struct); ok {
								for k := 0; k < st.NumFields(); k++ {
									if st.Field(k).Name() == kid.Name && !st.Field(k).Exported() && c.optsFieldOnlyCloned(st.Field(k), cloner) {
										return true
									}
								}
							}
						}
					}
					bad = append(bad, "stored in a value whose readers do not all clone it")
				case *ast.AssignStmt:
					for _, l := range par.Lhs {
						if l == ast.Expr(id) && rebindPos != 0 && par.End() == rebindPos {
							return true
						}
					}
					bad = append(bad, "assigned in "+exprString(par.Lhs[0]))
				default:
					bad = append(bad, fmt.Sprintf("used in %T", par))
				}
				return true
			})
			sort.Strings(bad)
			c.ob(rule, c.funcName(fd)+":param-only-cloned", fd.Pos(), len(bad) == 0, fmt.Sprintf("the caller's options pointer is %v before being cloned: internal changes (normalised base, transitive base) become visible to the caller", bad))
		}
	}
}

func isStar(e ast.Expr) bool {
	_, ok := unparen(e).(*ast.StarExpr)
	return ok
}

func ruleResolvePure(c *Ctx) {
	const rule = "resolve-pure"
	fam := c.family()
	if !fam.ok() {
		c.undecided(rule, "family", token.NoPos, "expander family not found by role")
		return
	}
	for _, f := range c.entryPoints() {
		if !strings.HasPrefix(f.Name(), "Resolve") {
			continue
		}
		c.saw(f.Name())
		var hit []string
		for g := range c.reachableSet([]*types.Func{f}) {
			if fam.withParents[g] {
				hit = append(hit, funcDisplay(g))
			}
		}
		sort.Strings(hit)
		c.ob(rule, f.Name(), c.decl(f).Pos(), len(hit) == 0, fmt.Sprintf("resolution reaches %v: nested $refs of the designated sub-document would be followed", hit))
	}
}

// ---- root-readonly ----

func isEmptyInterface(t types.Type) bool {
	i, ok := types.Unalias(t).Underlying().(*types.Interface)
	return ok && i.NumMethods() == 0
}

func ruleRootReadonly(c *Ctx) {
	const rule = "root-readonly"
	fam := c.family()
	if !fam.ok() {
		c.undecided(rule, "family", token.NoPos, "expander family not found by role")
		return
	}
	// document-valued parameters: interprocedural fixpoint over interface{} parameters
	docParam := map[*types.Func]map[int]bool{}
	mark := func(f *types.Func, i int) bool {
		if docParam[f] == nil {
			docParam[f] = map[int]bool{}
		}
		if docParam[f][i] {
			return false
		}
		docParam[f][i] = true
		return true
	}
	for _, f := range c.entryPoints() {
		sig := f.Type().(*types.Signature)
		for i := 0; i < sig.Params().Len(); i++ {
			if isEmptyInterface(sig.Params().At(i).Type()) && sig.Params().At(i).Name() == "root" {
				mark(f, i)
			}
		}
	}
	reach := c.reachableSet(c.entryPoints())
	type fnFacts struct {
		flow *pathFlow
		fd   *ast.FuncDecl
	}
	facts := map[*types.Func]*fnFacts{}
	analyse := func(f *types.Func) *pathFlow {
		fd := c.decl(f)
		pf := newPathFlow(c, fd)
		pf.precise = true
		pf.callFlow = func(call *ast.CallExpr, f *pathFlow) (map[string]bool, bool) {
			// a JSON pointer evaluation hands out a sub-value of the document it is applied to
			if c.isJSONPointerGet(call) && len(call.Args) == 1 {
				return flatten(f.eval(call.Args[0])), true
			}
			return nil, false
		}
		for i := range docParam[f] {
			if p := c.paramObj(fd, i); p != nil {
				pf.seed(p, "", "doc")
			}
		}
		// seeds inside the body: cache.Get results, loads of the loader's root field, results of the doc-loading method
		ast.Inspect(fd.Body, func(n ast.Node) bool {
			as, ok := n.(*ast.AssignStmt)
			if !ok || len(as.Rhs) != 1 {
				return true
			}
			call, isCall := unparen(as.Rhs[0]).(*ast.CallExpr)
			seedLHS := func(i int) {
				if i < len(as.Lhs) {
					if id, ok := as.Lhs[i].(*ast.Ident); ok && id.Name != "_" {
						pf.seed(c.objOf(id), "", "doc")
					}
				}
			}
			if isCall && c.isCacheCall(call, "Get") {
				seedLHS(0)
			}
			if isCall {
				if g, ok := c.callee(call).(*types.Func); ok && g.Pkg() == c.Types {
					gs := g.Type().(*types.Signature)
					if gs.Recv() != nil && isNamed(gs.Recv().Type(), c.Types, fam.loader.Obj().Name()) && gs.Results().Len() > 0 && isEmptyInterface(gs.Results().At(0).Type()) {
						seedLHS(0)
					}
				}
			}
			for i, r := range as.Rhs {
				if se, ok := unparen(r).(*ast.SelectorExpr); ok {
					if sel := c.Info.Selections[se]; sel != nil && sel.Kind() == types.FieldVal && isNamed(sel.Recv(), c.Types, fam.loader.Obj().Name()) && isEmptyInterface(sel.Type()) {
						seedLHS(i)
					}
				}
			}
			return true
		})
		pf.run()
		return pf
	}
	for changed := true; changed; {
		changed = false
		for f := range reach {
			fd := c.decl(f)
			pf := analyse(f)
			facts[f] = &fnFacts{pf, fd}
			ast.Inspect(fd.Body, func(n ast.Node) bool {
				call, ok := n.(*ast.CallExpr)
				if !ok {
					return true
				}
				g, ok := c.callee(call).(*types.Func)
				if !ok || g.Pkg() != c.Types || !reach[g] {
					return true
				}
				gs := g.Type().(*types.Signature)
				for i, a := range call.Args {
					if i < gs.Params().Len() && isEmptyInterface(gs.Params().At(i).Type()) && flatten(pf.eval(a))["doc"] {
						if mark(g, i) {
							changed = true
						}
					}
				}
				return true
			})
		}
	}
	// obligations: per function that handles documents, every use of a document value is a read
	var fs []*types.Func
	for f := range reach {
		fs = append(fs, f)
	}
	sort.Slice(fs, func(i, j int) bool { return fs[i].Pos() < fs[j].Pos() })
	for _, f := range fs {
		ff := facts[f]
		if ff == nil {
			continue
		}
		pf, fd := ff.flow, ff.fd
		isDoc := func(e ast.Expr) bool { return flatten(pf.eval(e))["doc"] }
		handles := false
		var bad []string
		ast.Inspect(fd.Body, func(n ast.Node) bool {
			switch x := n.(type) {
			case *ast.AssignStmt:
				for _, l := range x.Lhs {
					l = unparen(l)
					switch lx := l.(type) {
					case *ast.IndexExpr:
						if isDoc(lx.X) && isEmptyInterfaceOrDocContainer(c, lx.X) {
							bad = append(bad, "store into "+exprString(l))
						}
					case *ast.StarExpr:
						if isDoc(lx.X) {
							bad = append(bad, "store through "+exprString(l))
						}
					}
				}
			case *ast.TypeAssertExpr:
				if isDoc(x.X) && isEmptyInterface(c.typeOf(x.X)) {
					handles = true
					if !c.typedAccessReadOnly(fd, x) {
						bad = append(bad, "type assertion on a document value "+exprString(x.X)+" whose typed result is written through (gives writable access to the shared document)")
					}
				}
			case *ast.CallExpr:
				for i, a := range x.Args {
					if !isEmptyInterface(c.typeOf(a)) || !isDoc(a) {
						continue
					}
					handles = true
					switch {
					case c.isCacheCall(x, "Set") && i == 1:
					case c.isPkgFunc(x, "github.com/go-openapi/swag", "DynamicJSONToStruct") && i == 0:
					case c.isJSONPointerGet(x) && i == 0:
					case c.isSpecFunc(x, "debugLog"):
					case c.calleePkg(x) == "fmt" || c.calleePkg(x) == "log":
						// formatting only reads
					case c.isPkgFunc(x, "reflect", "ValueOf") && c.reflectValueOnlyInspected(fd, x):
						// kind / nil-ness inspection only
					default:
						if g, ok := c.callee(x).(*types.Func); ok && g.Pkg() == c.Types && reach[g] {
							continue // followed interprocedurally
						}
						if c.isPkgFunc(x, "github.com/go-openapi/swag", "DynamicJSONToStruct") && i == 1 {
							bad = append(bad, "document is the decode target of DynamicJSONToStruct")
							continue
						}
						bad = append(bad, fmt.Sprintf("document value passed to %s", exprString(x.Fun)))
					}
				}
			}
			return true
		})
		if !handles && len(bad) == 0 {
			continue
		}
		c.saw(c.funcName(fd))
		sort.Strings(bad)
		c.ob(rule, c.funcName(fd), fd.Pos(), len(bad) == 0, fmt.Sprintf("root or cached document is not only read: %v", bad))
	}
	// the result object is produced only by the JSON round trip: resolveRef's last statement returns DynamicJSONToStruct(res, target)
	if rr := c.decl(fam.resolveRef); rr != nil {
		ok := false
		if n := len(rr.Body.List); n > 0 {
			if rs, isR := rr.Body.List[n-1].(*ast.ReturnStmt); isR && len(rs.Results) == 1 {
				if call, isC := unparen(rs.Results[0]).(*ast.CallExpr); isC && c.isPkgFunc(call, "github.com/go-openapi/swag", "DynamicJSONToStruct") && len(call.Args) == 2 {
					// second argument is the caller's target parameter
					if id, isId := unparen(call.Args[1]).(*ast.Ident); isId {
						for i := 0; ; i++ {
							p := c.paramObj(rr, i)
							if p == nil {
								break
							}
							if p == c.objOf(id) && isEmptyInterface(p.Type()) {
								ok = true
							}
						}
					}
				}
			}
		}
		c.ob(rule, "resolveRef:result-by-json-round-trip", rr.Pos(), ok, "the resolved value must reach the caller only through DynamicJSONToStruct(located, target): a deep copy, never an alias of the cached document")
	}
}

func isEmptyInterfaceOrDocContainer(c *Ctx, e ast.Expr) bool {
	t := c.typeOf(e)
	if t == nil {
		return false
	}
	if isEmptyInterface(t) {
		return true
	}
	if m, ok := t.Underlying().(*types.Map); ok {
		return isEmptyInterface(m.Elem())
	}
	return false
}

func (c *Ctx) isJSONPointerGet(call *ast.CallExpr) bool {
	_, name, pkg, isM := c.calleeMethod(call)
	return isM && pkg == "github.com/go-openapi/jsonpointer" && name == "Get"
}

func (c *Ctx) calleePkg(call *ast.CallExpr) string {
	if f, ok := c.callee(call).(*types.Func); ok && f.Pkg() != nil {
		return f.Pkg().Path()
	}
	return ""
}

// reflectValueOnlyInspected: the reflect.Value obtained from the call is used only through read-only queries.
func (c *Ctx) reflectValueOnlyInspected(fd *ast.FuncDecl, call *ast.CallExpr) bool {
	var holder types.Object
	ast.Inspect(fd.Body, func(n ast.Node) bool {
		if as, ok := n.(*ast.AssignStmt); ok && len(as.Rhs) == 1 && unparen(as.Rhs[0]) == ast.Expr(call) {
			if id, ok := as.Lhs[0].(*ast.Ident); ok {
				holder = c.objOf(id)
			}
		}
		return true
	})
	readOnly := map[string]bool{"Kind": true, "IsNil": true, "IsValid": true, "IsZero": true, "Type": true}
	ok := true
	parents := map[ast.Node]ast.Node{}
	var stack []ast.Node
	ast.Inspect(fd.Body, func(n ast.Node) bool {
		if n == nil {
			stack = stack[:len(stack)-1]
			return true
		}
		if len(stack) > 0 {
			parents[n] = stack[len(stack)-1]
		}
		stack = append(stack, n)
		return true
	})
	if holder == nil {
		// used inline: reflect.ValueOf(x).Kind()
		se, isSel := parents[call].(*ast.SelectorExpr)
		return isSel && readOnly[se.Sel.Name]
	}
	ast.Inspect(fd.Body, func(n ast.Node) bool {
		id, isId := n.(*ast.Ident)
		if !isId || c.objOf(id) != holder {
			return true
		}
		switch p := parents[id].(type) {
		case *ast.SelectorExpr:
			if !readOnly[p.Sel.Name] {
				ok = false
			}
		case *ast.AssignStmt:
		default:
			ok = false
		}
		return true
	})
	return ok
}

// typedAccessReadOnly: the typed value obtained from a type assertion / type switch on a document is only read:
// no assignment, delete or pointer store goes through the variables bound to it.
func (c *Ctx) typedAccessReadOnly(fd *ast.FuncDecl, ta *ast.TypeAssertExpr) bool {
	bound := map[types.Object]bool{}
	ast.Inspect(fd.Body, func(n ast.Node) bool {
		switch x := n.(type) {
		case *ast.TypeSwitchStmt:
			holds := false
			ast.Inspect(x.Assign, func(m ast.Node) bool {
				if m == ast.Node(ta) {
					holds = true
				}
				return true
			})
			if holds {
				for _, cl := range x.Body.List {
					if o := c.Info.Implicits[cl]; o != nil {
						bound[o] = true
					}
				}
			}
		case *ast.AssignStmt:
			if len(x.Rhs) == 1 && unparen(x.Rhs[0]) == ast.Expr(ta) {
				if id, ok := x.Lhs[0].(*ast.Ident); ok && id.Name != "_" {
					bound[c.objOf(id)] = true
				}
			}
		}
		return true
	})
	ok := true
	ast.Inspect(fd.Body, func(n ast.Node) bool {
		switch x := n.(type) {
		case *ast.AssignStmt:
			for _, l := range x.Lhs {
				if p, isP := c.apath(l); isP && bound[p.Root] && (len(p.Steps) > 0 || isStar(l)) {
					ok = false
				}
			}
		case *ast.CallExpr:
			if c.isBuiltin(x, "delete") && len(x.Args) > 0 {
				if p, isP := c.apath(x.Args[0]); isP && bound[p.Root] {
					ok = false
				}
			}
			// handing the typed value to a decoder as its target would write it
			if (c.isPkgFunc(x, "encoding/json", "Unmarshal") || c.isPkgFunc(x, "github.com/go-openapi/swag", "DynamicJSONToStruct")) && len(x.Args) == 2 {
				if p, isP := c.apath(x.Args[1]); isP && bound[p.Root] {
					ok = false
				}
			}
		}
		return true
	})
	if len(bound) == 0 {
		// an assertion whose result is used in place: x.(T).f = v would be an assignment with a TypeAssertExpr base
		ast.Inspect(fd.Body, func(n ast.Node) bool {
			if as, isA := n.(*ast.AssignStmt); isA {
				for _, l := range as.Lhs {
					ast.Inspect(l, func(m ast.Node) bool {
						if m == ast.Node(ta) {
							ok = false
						}
						return true
					})
				}
			}
			return true
		})
	}
	return ok
}

// optsFieldOnlyCloned: every read of the struct field (holding a caller's *ExpandOptions) in the package is an
// argument of the options cloner or a nil comparison; the field is never written through.
func (c *Ctx) optsFieldOnlyCloned(f *types.Var, cloner *types.Func) bool {
	ok, reads := true, 0
	for _, fd := range c.allFuncDecls() {
		if fd.Body == nil {
			continue
		}
		parents := map[ast.Node]ast.Node{}
		var stack []ast.Node
		ast.Inspect(fd.Body, func(n ast.Node) bool {
			if n == nil {
				stack = stack[:len(stack)-1]
				return true
			}
			if len(stack) > 0 {
				parents[n] = stack[len(stack)-1]
			}
			stack = append(stack, n)
			return true
		})
		ast.Inspect(fd.Body, func(n ast.Node) bool {
			se, isSel := n.(*ast.SelectorExpr)
			if !isSel || c.fieldOfSel(se) != f {
				return true
			}
			reads++
			switch par := parents[se].(type) {
			case *ast.CallExpr:
				if g, _ := c.callee(par).(*types.Func); g == cloner {
					return true
				}
				ok = false
			case *ast.BinaryExpr:
				if !(isNilIdent(c, par.X) || isNilIdent(c, par.Y)) {
					ok = false
				}
			default:
				ok = false
			}
			return true
		})
	}
	return ok && reads > 0
}

// loaderPackedWithBase: the function packs a loader and a base path into a composite literal of an unexported
// struct type of the package (a parameter object). Reports whether such a literal exists, and whether its string
// field is the RelativeBase of the options identified by optID, read after the factory call.
func (c *Ctx) loaderPackedWithBase(fam *expFamily, fd *ast.FuncDecl, fcall *ast.CallExpr, optID *ast.Ident) (ok, packed bool) {
	ast.Inspect(fd.Body, func(n ast.Node) bool {
		lit, isLit := n.(*ast.CompositeLit)
		if !isLit {
			return true
		}
		nt, isNamedT := types.Unalias(derefType(c.typeOf(lit))).(*types.Named)
		if !isNamedT || nt.Obj().Pkg() != c.Types || nt.Obj().Exported() {
			return true
		}
		hasLoader := false
		var base ast.Expr
		for _, el := range lit.Elts {
			kv, isKV := el.(*ast.KeyValueExpr)
			if !isKV {
				continue
			}
			t := c.typeOf(kv.Value)
			switch {
			case t != nil && isNamed(derefType(t), c.Types, fam.loader.Obj().Name()):
				hasLoader = true
			case t != nil && isStringType(t):
				base = kv.Value
			}
		}
		if !hasLoader || base == nil {
			return true
		}
		packed = true
		p, isPath := c.apath(base)
		ok = isPath && optID != nil && p.Root == c.objOf(optID) && lastStep(p) == "RelativeBase" && base.Pos() > fcall.End()
		return true
	})
	return
}
