package main

import (
	"fmt"
	"go/ast"
	"go/token"
	"go/types"
	"sort"
	"strings"
)

// pathFlow is a flow-insensitive, field-sensitive label propagation over one
// function body. Facts: object -> sub-path -> labels. It is used to compute
// which receiver components reach a returned value (encoders) and which
// receiver components are filled from an input parameter (decoders).
type pathFlow struct {
	c       *Ctx
	fd      *ast.FuncDecl
	facts   map[types.Object]map[string]map[string]bool
	srcRoot types.Object // every path under this object is a source labelled "R:<path>"
	changed bool
	ctl     map[string]bool // labels read in conditions
	// precise mode: call results carry labels only when callFlow says so, and calls have no write effects
	precise  bool
	callFlow func(call *ast.CallExpr, f *pathFlow) (map[string]bool, bool)
	// variables that stand for a set of addresses: range values over a literal list of &x expressions
	aliases map[types.Object][]APath
	// interprocedural summaries of package helpers (bounded depth), memoised per call and argument labels
	depth   int
	sumMemo map[string][]labelled
}

type labelled map[string]map[string]bool // remainder path -> labels

func joinPath(a, b string) string {
	if a == "" {
		return b
	}
	if b == "" {
		return a
	}
	return a + "." + b
}

func hasPathPrefix(s, prefix string) bool {
	return prefix == "" || s == prefix || strings.HasPrefix(s, prefix+".")
}

func trimPathPrefix(s, prefix string) string {
	if prefix == "" {
		return s
	}
	if s == prefix {
		return ""
	}
	return strings.TrimPrefix(s, prefix+".")
}

func newPathFlow(c *Ctx, fd *ast.FuncDecl) *pathFlow {
	return &pathFlow{c: c, fd: fd, facts: map[types.Object]map[string]map[string]bool{}, ctl: map[string]bool{}}
}

func (f *pathFlow) seed(o types.Object, sub, label string) {
	f.assignTo(APath{Root: o, Steps: splitSteps(sub)}, labelled{"": {label: true}})
}

func splitSteps(s string) []string {
	if s == "" {
		return nil
	}
	return strings.Split(s, ".")
}

func (f *pathFlow) assignTo(p APath, v labelled) {
	if p.Root == nil || len(v) == 0 {
		return
	}
	if p.Root == f.srcRoot {
		return
	}
	m := f.facts[p.Root]
	if m == nil {
		m = map[string]map[string]bool{}
		f.facts[p.Root] = m
	}
	for rem, ls := range v {
		k := joinPath(p.Sub(), rem)
		if m[k] == nil {
			m[k] = map[string]bool{}
		}
		for l := range ls {
			if !m[k][l] {
				m[k][l] = true
				f.changed = true
			}
		}
	}
}

func (f *pathFlow) evalPath(p APath) labelled {
	out := labelled{}
	if p.Root == f.srcRoot && f.srcRoot != nil {
		out[""] = map[string]bool{"R:" + p.Sub(): true}
		return out
	}
	s := p.Sub()
	for t, ls := range f.facts[p.Root] {
		var rem string
		switch {
		case hasPathPrefix(s, t):
			rem = ""
		case hasPathPrefix(t, s):
			rem = trimPathPrefix(t, s)
		default:
			continue
		}
		if out[rem] == nil {
			out[rem] = map[string]bool{}
		}
		for l := range ls {
			out[rem][l] = true
		}
	}
	return out
}

func flatten(v labelled) map[string]bool {
	out := map[string]bool{}
	for _, ls := range v {
		for l := range ls {
			out[l] = true
		}
	}
	return out
}

func whole(ls map[string]bool) labelled {
	if len(ls) == 0 {
		return labelled{}
	}
	return labelled{"": ls}
}

func union(a, b map[string]bool) map[string]bool {
	out := map[string]bool{}
	for k := range a {
		out[k] = true
	}
	for k := range b {
		out[k] = true
	}
	return out
}

// eval computes the labelled content of an expression value.
func (f *pathFlow) eval(e ast.Expr) labelled {
	c := f.c
	e = unparen(e)
	if p, ok := c.apath(e); ok {
		return f.evalPath(p)
	}
	switch x := e.(type) {
	case *ast.CallExpr:
		if c.isBuiltin(x, "len") || c.isBuiltin(x, "cap") || c.isBuiltin(x, "make") || c.isBuiltin(x, "new") {
			return labelled{}
		}
		if c.isConversion(x) && len(x.Args) == 1 {
			return f.eval(x.Args[0])
		}
		if c.isBuiltin(x, "append") {
			out := map[string]bool{}
			for _, a := range x.Args {
				out = union(out, flatten(f.eval(a)))
			}
			return whole(out)
		}
		if f.precise {
			if f.callFlow != nil {
				if ls, ok := f.callFlow(x, f); ok {
					return whole(ls)
				}
			}
			return labelled{}
		}
		out := map[string]bool{}
		for _, a := range x.Args {
			out = union(out, flatten(f.eval(a)))
		}
		if se, ok := unparen(x.Fun).(*ast.SelectorExpr); ok {
			if sel := c.Info.Selections[se]; sel != nil && sel.Kind() == types.MethodVal {
				out = union(out, flatten(f.evalMethodRecv(se, sel)))
			}
		}
		// a call through a function value (a closure kept in a variable, field or table): its result carries
		// what the function value carries, i.e. what the closure's body returns
		if _, static := c.callee(x).(*types.Func); !static {
			out = union(out, flatten(f.eval(x.Fun)))
		}
		res := whole(out)
		// a package helper that builds and returns a value: which of its parts it fills from what
		if rs := f.calleeResults(x); len(rs) > 0 {
			for rem, ls := range rs[0] {
				if rem != "" {
					res[rem] = union(res[rem], ls)
				}
			}
		}
		return res
	case *ast.FuncLit:
		// the value of a closure stands for what calling it yields: the labels of its returned values,
		// evaluated in the facts of the enclosing function (it captures by reference)
		out := map[string]bool{}
		ast.Inspect(x.Body, func(n ast.Node) bool {
			switch r := n.(type) {
			case *ast.FuncLit:
				return r == x
			case *ast.ReturnStmt:
				for _, res := range r.Results {
					out = union(out, flatten(f.eval(res)))
				}
			}
			return true
		})
		return whole(out)
	case *ast.CompositeLit:
		out := labelled{}
		t := c.typeOf(x)
		structLit := t != nil && isStruct(derefType(t))
		for _, el := range x.Elts {
			kv, isKV := el.(*ast.KeyValueExpr)
			switch {
			case isKV && structLit:
				key := ""
				if id, ok := kv.Key.(*ast.Ident); ok {
					key = id.Name
				}
				for rem, ls := range f.eval(kv.Value) {
					k := joinPath(key, rem)
					out[k] = union(out[k], ls)
				}
			case isKV:
				out[""] = union(out[""], union(flatten(f.eval(kv.Key)), flatten(f.eval(kv.Value))))
			default:
				out[""] = union(out[""], flatten(f.eval(el)))
			}
		}
		for k, v := range out {
			if len(v) == 0 {
				delete(out, k)
			}
		}
		return out
	case *ast.UnaryExpr:
		return f.eval(x.X)
	case *ast.StarExpr:
		return f.eval(x.X)
	case *ast.TypeAssertExpr:
		return whole(flatten(f.eval(x.X)))
	case *ast.IndexExpr:
		return whole(flatten(f.eval(x.X)))
	case *ast.SliceExpr:
		return whole(flatten(f.eval(x.X)))
	case *ast.SelectorExpr:
		// field of a non-path expression (e.g. call result)
		return whole(flatten(f.eval(x.X)))
	case *ast.BinaryExpr:
		switch x.Op {
		case token.EQL, token.NEQ, token.LSS, token.GTR, token.LEQ, token.GEQ, token.LAND, token.LOR:
			return labelled{}
		}
		return whole(union(flatten(f.eval(x.X)), flatten(f.eval(x.Y))))
	case *ast.KeyValueExpr:
		return f.eval(x.Value)
	}
	return labelled{}
}

// evalMethodRecv evaluates the receiver expression of a method call, with
// promoted-method embedding steps applied.
func (f *pathFlow) evalMethodRecv(se *ast.SelectorExpr, sel *types.Selection) labelled {
	if p, ok := f.c.apath(se.X); ok {
		p.Steps = append(append([]string{}, p.Steps...), methodRecvSteps(sel)...)
		return f.evalPath(p)
	}
	return f.eval(se.X)
}

func (f *pathFlow) methodRecvPath(se *ast.SelectorExpr, sel *types.Selection) (APath, bool) {
	p, ok := f.c.apath(se.X)
	if !ok {
		return APath{}, false
	}
	p.Steps = append(append([]string{}, p.Steps...), methodRecvSteps(sel)...)
	return p, true
}

func (f *pathFlow) assignExpr(lhs ast.Expr, v labelled) {
	lhs = unparen(lhs)
	if id, ok := lhs.(*ast.Ident); ok && id.Name == "_" {
		return
	}
	if p, ok := f.c.apath(lhs); ok {
		f.assignTo(p, v)
	}
}

// callEffects models writes through pointer arguments and pointer receivers.
func (f *pathFlow) callEffects(call *ast.CallExpr) {
	c := f.c
	if c.isConversion(call) || f.precise {
		return
	}
	isJSONUnmarshal := c.isPkgFunc(call, "encoding/json", "Unmarshal")
	argLabels := make([]map[string]bool, len(call.Args))
	all := map[string]bool{}
	for i, a := range call.Args {
		argLabels[i] = flatten(f.eval(a))
		all = union(all, argLabels[i])
	}
	var recvLabels map[string]bool
	var se *ast.SelectorExpr
	var sel *types.Selection
	if s, ok := unparen(call.Fun).(*ast.SelectorExpr); ok {
		if sl := c.Info.Selections[s]; sl != nil && sl.Kind() == types.MethodVal {
			se, sel = s, sl
			recvLabels = flatten(f.evalMethodRecv(s, sl))
		}
	}
	// arguments that stand for a list of addresses (range over []interface{}{&a, &b})
	for i, a := range call.Args {
		id, ok := unparen(a).(*ast.Ident)
		if !ok || f.aliases == nil {
			continue
		}
		paths := f.aliases[c.objOf(id)]
		if len(paths) == 0 {
			continue
		}
		others := map[string]bool{}
		for j := range call.Args {
			if j != i {
				others = union(others, argLabels[j])
			}
		}
		others = union(others, recvLabels)
		if isJSONUnmarshal {
			tagged := map[string]bool{}
			for l := range others {
				tagged[l+"|json"] = true
			}
			others = tagged
		}
		for _, p := range paths {
			f.assignTo(p, whole(others))
		}
	}
	// pointer-typed arguments may be written with what the other operands carry
	for i, a := range call.Args {
		t := c.typeOf(a)
		if t == nil {
			continue
		}
		if _, isPtr := types.Unalias(t).Underlying().(*types.Pointer); !isPtr {
			continue
		}
		p, ok := c.apath(a)
		if !ok {
			continue
		}
		others := map[string]bool{}
		for j := range call.Args {
			if j != i {
				others = union(others, argLabels[j])
			}
		}
		others = union(others, recvLabels)
		if isJSONUnmarshal {
			tagged := map[string]bool{}
			for l := range others {
				tagged[l+"|json"] = true
			}
			others = tagged
		}
		f.assignTo(p, whole(others))
	}
	// pointer-receiver method: receiver may be written with the arguments' labels
	if sel != nil && len(all) > 0 {
		if fn, ok := sel.Obj().(*types.Func); ok {
			sig := fn.Type().(*types.Signature)
			if sig.Recv() != nil {
				if _, isPtr := sig.Recv().Type().(*types.Pointer); isPtr {
					if p, ok := f.methodRecvPath(se, sel); ok {
						f.assignTo(p, whole(all))
					}
				}
			}
		}
	}
}

func (f *pathFlow) visitStmt(n ast.Node) bool {
	switch s := n.(type) {
	case *ast.AssignStmt:
		if len(s.Lhs) == len(s.Rhs) {
			for i := range s.Lhs {
				v := f.eval(s.Rhs[i])
				if s.Tok != token.ASSIGN && s.Tok != token.DEFINE {
					v = whole(flatten(v)) // op-assign
				}
				f.assignExpr(s.Lhs[i], v)
			}
		} else if len(s.Rhs) == 1 {
			v := whole(flatten(f.eval(s.Rhs[0])))
			var rs []labelled
			if call, ok := unparen(s.Rhs[0]).(*ast.CallExpr); ok && !f.precise {
				rs = f.calleeResults(call)
			}
			for i, l := range s.Lhs {
				f.assignExpr(l, v)
				if i < len(rs) {
					part := labelled{}
					for rem, ls := range rs[i] {
						if rem != "" {
							part[rem] = ls
						}
					}
					f.assignExpr(l, part)
				}
			}
		}
	case *ast.ValueSpec:
		if len(s.Values) == len(s.Names) {
			for i, nm := range s.Names {
				f.assignExpr(nm, f.eval(s.Values[i]))
			}
		} else if len(s.Values) == 1 {
			v := whole(flatten(f.eval(s.Values[0])))
			for _, nm := range s.Names {
				f.assignExpr(nm, v)
			}
		}
	case *ast.RangeStmt:
		// for _, p := range []T{&a, &b}: p stands for the addresses listed
		if id, ok := s.Value.(*ast.Ident); ok && id.Name != "_" {
			var lit *ast.CompositeLit
			switch x := unparen(s.X).(type) {
			case *ast.CompositeLit:
				lit = x
			case *ast.Ident:
				var defs []ast.Expr
				ast.Inspect(f.fd.Body, func(n ast.Node) bool {
					if as, ok := n.(*ast.AssignStmt); ok && len(as.Lhs) == len(as.Rhs) {
						for i, l := range as.Lhs {
							if li, ok := l.(*ast.Ident); ok && f.c.objOf(li) == f.c.objOf(x) {
								defs = append(defs, as.Rhs[i])
							}
						}
					}
					return true
				})
				if len(defs) == 1 {
					lit, _ = unparen(defs[0]).(*ast.CompositeLit)
				}
			}
			if lit != nil {
				var paths []APath
				for _, el := range lit.Elts {
					if u, ok := unparen(el).(*ast.UnaryExpr); ok && u.Op == token.AND {
						if p, ok := f.c.apath(u.X); ok {
							paths = append(paths, p)
						}
					}
				}
				if len(paths) > 0 {
					if f.aliases == nil {
						f.aliases = map[types.Object][]APath{}
					}
					f.aliases[f.c.objOf(id)] = paths
				}
			}
		}
		v := whole(flatten(f.eval(s.X)))
		if s.Key != nil {
			f.assignExpr(s.Key, v)
		}
		if s.Value != nil {
			f.assignExpr(s.Value, v)
		}
	case *ast.TypeSwitchStmt:
		// v := x.(type): bind the implicit objects
		if as, ok := s.Assign.(*ast.AssignStmt); ok && len(as.Rhs) == 1 {
			v := whole(flatten(f.eval(as.Rhs[0])))
			for _, cl := range s.Body.List {
				if o := f.c.Info.Implicits[cl]; o != nil {
					f.assignTo(APath{Root: o}, v)
				}
			}
		}
	case *ast.CallExpr:
		f.callEffects(s)
	case *ast.IfStmt:
		for l := range f.condLabels(s.Cond) {
			f.ctl[l] = true
		}
	case *ast.SwitchStmt:
		if s.Tag != nil {
			for l := range f.condLabels(s.Tag) {
				f.ctl[l] = true
			}
		}
		for _, cl := range s.Body.List {
			for _, e := range cl.(*ast.CaseClause).List {
				for l := range f.condLabels(e) {
					f.ctl[l] = true
				}
			}
		}
	}
	return true
}

// condLabels collects labels of every path expression mentioned in a condition.
func (f *pathFlow) condLabels(e ast.Expr) map[string]bool {
	out := map[string]bool{}
	ast.Inspect(e, func(n ast.Node) bool {
		if ex, ok := n.(ast.Expr); ok {
			if p, ok := f.c.apath(ex); ok {
				for l := range flatten(f.evalPath(p)) {
					out[l] = true
				}
				return false
			}
			if call, ok := ex.(*ast.CallExpr); ok {
				if se, ok := unparen(call.Fun).(*ast.SelectorExpr); ok {
					if sel := f.c.Info.Selections[se]; sel != nil && sel.Kind() == types.MethodVal {
						for l := range flatten(f.evalMethodRecv(se, sel)) {
							out[l] = true
						}
					}
				}
			}
		}
		return true
	})
	return out
}

// calleeResults summarises a call of a package function with a body: the structured labels of each of its
// results when its parameters (and receiver) carry what the arguments carry here. Bounded depth; nil when
// the callee is not a package function.
func (f *pathFlow) calleeResults(call *ast.CallExpr) []labelled {
	c := f.c
	if f.precise || f.depth >= 2 || c.isConversion(call) {
		return nil
	}
	g, _ := c.callee(call).(*types.Func)
	if g == nil || g.Pkg() != c.Types {
		return nil
	}
	gfd := c.decl(g)
	if gfd == nil || gfd.Body == nil || gfd == f.fd {
		return nil
	}
	sig := g.Type().(*types.Signature)
	if sig.Results().Len() == 0 {
		return nil
	}
	structured := false
	for i := 0; i < sig.Results().Len(); i++ {
		if isStruct(derefType(sig.Results().At(i).Type())) {
			structured = true
		}
	}
	if !structured {
		return nil
	}
	args := make([]map[string]bool, len(call.Args))
	key := fmt.Sprintf("%d", call.Pos())
	for i, a := range call.Args {
		args[i] = flatten(f.eval(a))
		key += "|" + strings.Join(sortedSet(args[i]), ",")
	}
	var recvLabels map[string]bool
	if se, ok := unparen(call.Fun).(*ast.SelectorExpr); ok {
		if sel := c.Info.Selections[se]; sel != nil && sel.Kind() == types.MethodVal {
			recvLabels = flatten(f.evalMethodRecv(se, sel))
			key += "|r:" + strings.Join(sortedSet(recvLabels), ",")
		}
	}
	if f.sumMemo == nil {
		f.sumMemo = map[string][]labelled{}
	}
	if r, ok := f.sumMemo[key]; ok {
		return r
	}
	f.sumMemo[key] = nil // recursion guard
	sub := newPathFlow(c, gfd)
	sub.depth = f.depth + 1
	for i := range call.Args {
		if po := c.paramObj(gfd, i); po != nil && len(args[i]) > 0 {
			sub.assignTo(APath{Root: po}, whole(args[i]))
		}
	}
	if ro := c.recvObj(gfd); ro != nil && len(recvLabels) > 0 {
		sub.assignTo(APath{Root: ro}, whole(recvLabels))
	}
	sub.run()
	out := make([]labelled, sig.Results().Len())
	for i := range out {
		out[i] = labelled{}
	}
	ast.Inspect(gfd.Body, func(n ast.Node) bool {
		switch x := n.(type) {
		case *ast.FuncLit:
			return false
		case *ast.ReturnStmt:
			for i := range out {
				var v labelled
				if i < len(x.Results) && len(x.Results) == len(out) {
					v = sub.eval(x.Results[i])
				} else if len(x.Results) == 0 {
					if ro := c.namedResult(gfd, i); ro != nil {
						v = sub.evalPath(APath{Root: ro})
					}
				}
				for rem, ls := range v {
					out[i][rem] = union(out[i][rem], ls)
				}
			}
		}
		return true
	})
	f.sumMemo[key] = out
	return out
}

func (f *pathFlow) run() {
	for i := 0; i < 50; i++ {
		f.changed = false
		ast.Inspect(f.fd.Body, f.visitStmt)
		if !f.changed {
			return
		}
	}
}

// returnLabels collects the labels of result i over every return statement
// of the function itself (returns inside function literals are skipped).
func (f *pathFlow) returnLabels(i int) map[string]bool {
	out := map[string]bool{}
	var walk func(n ast.Node) bool
	walk = func(n ast.Node) bool {
		switch x := n.(type) {
		case *ast.FuncLit:
			return false
		case *ast.ReturnStmt:
			if i < len(x.Results) {
				out = union(out, flatten(f.eval(x.Results[i])))
			} else if len(x.Results) == 0 {
				// bare return: the named result carries the value
				if ro := f.c.namedResult(f.fd, i); ro != nil {
					out = union(out, flatten(f.evalPath(APath{Root: ro})))
				}
			}
		}
		return true
	}
	ast.Inspect(f.fd.Body, walk)
	return out
}

// namedResult returns the object of the i-th named result of a function declaration (nil if unnamed).
func (c *Ctx) namedResult(fd *ast.FuncDecl, i int) types.Object {
	if fd.Type.Results == nil {
		return nil
	}
	n := 0
	for _, fld := range fd.Type.Results.List {
		if len(fld.Names) == 0 {
			n++
			continue
		}
		for _, nm := range fld.Names {
			if n == i {
				return c.Info.Defs[nm]
			}
			n++
		}
	}
	return nil
}

func sortedSet(m map[string]bool) []string {
	out := make([]string, 0, len(m))
	for k := range m {
		out = append(out, k)
	}
	sort.Strings(out)
	return out
}
